#!/bin/bash
# Offline setup: nothing to build or install.  Verifies the interpreter and the
# packages the harness relies on (all already in /venv) and that the tree imports.
set -e
cd "$(dirname "$0")"
/venv/bin/python -B -W ignore -c "import numpy, scipy, joblib, sqlite3, jsonschema; import sys; sys.path.insert(0, '${ARTAP_TREE:-/repo}'); import artap; print('setup ok', artap.__file__)"
mkdir -p evidence
