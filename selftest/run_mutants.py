#!/usr/bin/env python3
"""Self-validation: apply each mutant from mutants.json to a scratch copy of the
tree (outside /repo and /verif), run the quick tier of the property's check with
ARTAP_TREE pointing at the copy, and report whether it fired.

usage: run_mutants.py [-j N] [--tier quick] [ID-or-mutant-name ...]
Mutant format: {"name", "property", "file", "old", "new", "nth" (optional, 0-based)}"""
import concurrent.futures as cf
import json
import os
import shutil
import subprocess
import sys
import tempfile

HERE = os.path.dirname(os.path.abspath(__file__))
VERIF = os.path.dirname(HERE)
REPO = os.environ.get("MUT_BASE", "/repo")


def run(m, tier):
    d = tempfile.mkdtemp(prefix="artap-mut-")
    try:
        shutil.copytree(os.path.join(REPO, "artap"), os.path.join(d, "artap"),
                        ignore=shutil.ignore_patterns("tests", "__pycache__", "*.pyc", "lib", "cert"))
        path = os.path.join(d, m["file"])
        s = open(path).read()
        cnt = s.count(m["old"])
        if cnt == 0:
            return m, "STALE(old text not found)", ""
        nth = m.get("nth")
        if nth is None:
            if cnt != 1:
                return m, "AMBIGUOUS(%d occurrences)" % cnt, ""
            s = s.replace(m["old"], m["new"])
        else:
            parts = s.split(m["old"])
            s = m["old"].join(parts[:nth + 1]) + m["new"] + m["old"].join(parts[nth + 1:])
        open(path, "w").write(s)
        env = dict(os.environ, ARTAP_TREE=d, VERIF_EVIDENCE_DIR=os.path.join(d, "ev"),
                   VERIF_REPLAY_DIR=os.path.join(d, "rp"))
        env.setdefault("VERIF_SEED", "0")
        p = subprocess.run([os.path.join(VERIF, "check"), m["property"], "--tier", m.get("tier", tier)],
                           env=env, capture_output=True, text=True, timeout=3600)
        out = p.stdout
        if p.returncode == 1 and "VIOLATION property=%s" % m["property"] in out:
            keys = [l.strip() for l in out.splitlines() if l.strip().startswith("key=")]
            return m, "CAUGHT", "; ".join(k[:110] for k in keys[:3])
        return m, "MISSED(rc=%d)" % p.returncode, (out[-400:] + p.stderr[-600:])
    finally:
        shutil.rmtree(d, ignore_errors=True)


def main():
    args = sys.argv[1:]
    jobs, tier = 8, "quick"
    if "-j" in args:
        i = args.index("-j"); jobs = int(args[i + 1]); del args[i:i + 2]
    if "--tier" in args:
        i = args.index("--tier"); tier = args[i + 1]; del args[i:i + 2]
    muts = json.load(open(os.path.join(HERE, "mutants.json")))
    if args:
        muts = [m for m in muts if m["property"] in args or m["name"] in args]
    bad = 0
    with cf.ThreadPoolExecutor(jobs) as ex:
        for m, verdict, info in ex.map(lambda m: run(m, tier), muts):
            print("%-8s %-44s %s  %s" % (m["property"], m["name"], verdict, info if verdict != "CAUGHT" else info[:160]))
            sys.stdout.flush()
            if verdict != "CAUGHT":
                bad += 1
    print("%d mutants, %d not caught" % (len(muts), bad))
    return 1 if bad else 0


if __name__ == "__main__":
    sys.exit(main())
