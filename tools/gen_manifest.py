#!/usr/bin/env python3
"""Regenerates MANIFEST.json from the table below (kept valid at all times)."""
import json
import os

HERE = os.path.dirname(os.path.dirname(os.path.abspath(__file__)))

CHECKS = {
    "C01": dict(cat="exploration", tech="runtime monitor: comparator verdict oracle + order laws on recorded verdicts",
                text="Every verdict of ParetoDominance/EpsilonDominance.compare observed on exhaustive small grids, random float "
                     "pairs/triples with injected ties, epsilon lists and inside real algorithm runs is compared with an independent "
                     "constrained-Pareto order; irreflexivity/antisymmetry/transitivity are checked on the recorded verdicts. "
                     "Exploration is the right level: the input space is unbounded, the oracle is exact.",
                note="Trusted: the 30-line oracle in vlib/oracles.py; markers of equal magnitude and opposite sign are not generated.",
                ref="DESIGN.md §3 C01"),
}

NOT_BUILT = "check not built yet in this session (design in DESIGN.md §3); not claimed until its monitor exists"


def main():
    props = [json.loads(l)["id"] for l in open(os.path.join(HERE, "properties.jsonl"))]
    checks = []
    for pid in props:
        c = CHECKS.get(pid)
        if not c:
            continue
        checks.append({
            "property_id": pid,
            "quick_cmd": "./check %s --tier quick" % pid,
            "thorough_cmd": "./check %s --tier thorough" % pid,
            "evidence_file": "/verif/evidence/%s.json" % pid,
            "replay_cmd_template": "./check %s --replay {path}" % pid,
            "engine": "vlib",
            "level_claimed": {"category": c["cat"], "text": c["text"], "design_ref": c["ref"]},
            "level_note": c["note"],
            "technique": c["tech"],
        })
    na = [{"property_id": pid, "reason": NOT_BUILT} for pid in props if pid not in CHECKS]
    man = {
        "version": 1,
        "setup_cmd": "./setup.sh",
        "hooks": {
            "guard": "ARTAP_VERIF",
            "enable": "no source hooks: all instrumentation is applied from the harness (in-place wrappers, RNG/sqlite3 proxies, "
                      "LoggingProblem objectives); ./check exports ARTAP_VERIF=1 and imports the working tree via PYTHONPATH",
            "baseline_off_cmd": "cd /repo && /venv/bin/python -m pytest -ra -q -p no:cacheprovider --timeout=900 --continue-on-collection-errors",
            "source_commits": [],
            "add_only": True,
        },
        "engines": [{"name": "vlib", "path": "/verif/vlib", "serves_properties": [c["property_id"] for c in checks],
                     "kind_free_text": "Python runtime-monitoring harness: generated/hostile workloads drive the real artap code, "
                                       "independent oracles judge every observed execution"}],
        "checks": checks,
        "not_applicable": na,
        "notes": "Runtime monitoring only. Exit 0 held / 1 VIOLATION / 2 INCONCLUSIVE. Known findings: known_findings.json.",
    }
    with open(os.path.join(HERE, "MANIFEST.json"), "w") as f:
        json.dump(man, f, indent=1)
        f.write("\n")
    try:
        import jsonschema
        jsonschema.validate(man, json.load(open("/root/.vp/MANIFEST.schema.json")))
        print("MANIFEST.json valid; %d checks, %d not_applicable" % (len(checks), len(na)))
    except ImportError:
        print("written (jsonschema not available to validate)")


if __name__ == "__main__":
    main()
