#!/usr/bin/env python3
"""Regenerates MANIFEST.json from the table below (kept valid at all times)."""
import json
import os

HERE = os.path.dirname(os.path.dirname(os.path.abspath(__file__)))

CHECKS = {
    "C01": dict(cat="exploration", tech="runtime monitor: comparator verdict oracle + order laws on recorded verdicts",
                text="Every verdict of ParetoDominance/EpsilonDominance.compare observed on exhaustive small grids, random float "
                     "pairs/triples with injected ties, epsilon lists and inside real algorithm runs is compared with an independent "
                     "constrained-Pareto order; irreflexivity/antisymmetry/transitivity are checked on the recorded verdicts. "
                     "Exploration is the right level: the input space is unbounded, the oracle is exact.",
                note="Trusted: the 30-line oracle in vlib/oracles.py; violation degrees compare by magnitude (-v and +v are equally infeasible).",
                ref="DESIGN.md §3 C01"),
    "C02": dict(cat="exploration", tech="runtime monitor: post-condition on Selector.fast_nondominated_sorting vs recursive rank oracle",
                text="After every observed call of the sorter (generated populations in shuffled orders, every tiny population over a "
                     "small alphabet in every order, populations inside NSGA-II/OMOPSO runs) each front_number is compared with the "
                     "recursive rank definition computed on an independent dominance oracle.",
                note="Trusted: oracle dominance/rank in vlib/oracles.py; each object appears once per list.",
                ref="DESIGN.md §3 C02"),
    "C03": dict(cat="exploration", tech="runtime monitors on crowding_distance / nondominated_truncate / TournamentSelector.select (pair tapped at the RNG)",
                text="Closed-form crowding oracle (exact where the statement claims it, bounds elsewhere), truncation post-conditions "
                     "(size, distinct designs, rank order, crowding order in the cut front) and tournament verdicts on the actually "
                     "drawn pair, on generated inputs and inside real runs.",
                note="Trusted: oracles; the random.sample tap identifies the drawn pair; near-equal vectors not generated.",
                ref="DESIGN.md §3 C03"),
    "C04": dict(cat="exploration", tech="runtime monitor: model-based checker (ND set of everything offered) after every Archive.add; truncate post-conditions",
                text="Every add in thousands of generated histories (both comparators) is followed by comparison of the archive with "
                     "the non-dominated set of everything offered, the return value with membership, eviction justification; "
                     "permutation independence; truncate keeps the top feature values; invariants on archives inside real runs.",
                note="Trusted: oracle ND set; epsilon histories use identical-or-separated vectors.",
                ref="DESIGN.md §3 C04"),
    "C20": dict(cat="exploration", tech="runtime monitor: equality/hash oracle on generated pairs + consequence probes (in, set, remove, truncate, generate)",
                text="All non-empty coordinate subsets (n<=6) x deltas x signs plus random and hash-colliding pairs are compared with the "
                     "coordinate-wise definition; symmetry, hash agreement and the container consequences are observed on the same "
                     "pairs; GeneticAlgorithm.generate is driven with scripted children against a take-every-new-design model.",
                note="Trusted: 10-line equality oracle; differences in (0, 1e-9) not generated.",
                ref="DESIGN.md §3 C20"),
    "C12": dict(cat="exploration", tech="runtime monitor: structural oracles on generator outputs (stratum matching, exact-rational radical inverse, grid set equality) under seeded and hostile RNG",
                text="Every design returned by LHS/Halton/Uniform/Random generators over generated (n, N, box, seed) is judged against "
                     "the defining structure; the numpy RandomState is replaced by a seeded/hostile one so edge draws (0, 1-2^-53) occur.",
                note="Trusted: oracles (Fraction-based radical inverse, independent prime sieve); closed strata with 4-ulp slack.",
                ref="DESIGN.md §3 C12"),
    "C13": dict(cat="exploration", tech="runtime monitor: combinatorial oracles (itertools.product multiset equality, balance/orthogonality counts, BB corner set, GSD partition) on generator outputs",
                text="Full factorial over random level lists, Plackett-Burman for every factor count 1..23, Box-Behnken n=3..9(10), GSD for "
                     "all level lists x reductions in range: outputs compared with the combinatorial definition; finite sub-spaces are "
                     "enumerated completely, bounds/levels are sampled.",
                note="Trusted: oracles; documented ValueErrors of build_gsd counted, not judged. Known finding: GSDGenerator n>=2.",
                ref="DESIGN.md §3 C13"),
    "C15": dict(cat="exploration", tech="runtime monitor: totality/optimum-value oracle + adversarial search (random, pattern search from the best points and from the documented optimum) + threaded evaluation with statement-level yield injection",
                text="Every single-objective benchmark in every accepted dimension is evaluated on corners, faces, interior and optimum "
                     "neighbourhood as Python and numpy floats; documented optimum value checked at documented coordinates; a "
                     "harness-side search tries to beat the documented optimum in the declared direction.",
                note="A failed search is not a proof; tolerance 1e-3 as stated. Known finding: ModifiedEasom odd dimension.",
                ref="DESIGN.md §3 C15"),
    "C16": dict(cat="exploration", tech="runtime monitor: algebraic identity oracle (sum/norm with independently recomputed g) on random box points, re-used/moved/numpy-array designs and threaded evaluation with yield injection",
                text="DTLZ1 sum, DTLZ2-4 norm, ZDT1 and bi-objective identities and non-negativity checked on thousands of box points "
                     "with position variables at and near the box ends, m=2..6.",
                note="Trusted: 10-line recomputation of g; relative tolerance 1e-9.",
                ref="DESIGN.md §3 C16"),
    "C17": dict(cat="exploration", tech="runtime monitor: recomputation oracle over harness-recorded individuals for every Results query; independent gd/epsilon implementations",
                text="Recorded sets with unsorted tags, duplicates and maximised goals are queried through population/table/listings/"
                     "find_optimum/pareto_front and compared with a direct recomputation; gd and epsilon_add are compared with "
                     "independent implementations incl. the identical/shifted/subset laws.",
                note="Trusted: oracles; no pairing demanded between parameters() and costs().",
                ref="DESIGN.md §3 C17"),
    "C18": dict(cat="exploration", tech="runtime monitors on the public swarm update methods: sequential personal-best model, clamp bound, exact bound-reset model, leader-archive invariants",
                text="OMOPSO/SMPSO/PSOGA update_particle_best/update_velocity/update_position/update_global_best are driven with "
                     "generated swarms far outside the box and observed inside full runs; each post-state is compared with a "
                     "reference model computed from the pre-state.",
                note="Trusted: reference models in c18.py; finite values only; leader invariants on separated vectors.",
                ref="DESIGN.md §3 C18"),
    "C19": dict(cat="exploration", tech="runtime monitor: reference-model checker of the surrogate wrapper after every request (counters, training set, retraining, call log)",
                text="Request histories x predict-hook scripts x train_step x trained state are replayed against a recording "
                     "SurrogateModelPredict subclass, the real SurrogateModelScikit with a stub regressor and SurrogateModelEval; "
                     "every post-state is compared with an executable model.",
                note="Trusted: the model in c19.py; single-threaded requests.",
                ref="DESIGN.md §3 C19"),
    "C05": dict(cat="exploration", tech="runtime monitor: call-log counting model on a harness-defined objective + field oracles (sign, rounding, marker) + taps on generator output and the scalar-optimiser bridge; threaded batches under a controlled scheduler",
                text="Mixed batches (serial and threaded), sweeps with every generator and SciPy/NLopt runs are observed at the client "
                     "boundary: the objective's call log must contain exactly one call per not-yet-evaluated design with its stored "
                     "vector, fields must satisfy the sign/rounding/marker rules, every optimiser query must be recorded with its true cost.",
                note="Trusted: LoggingProblem call log (under a lock); IN_PROGRESS/FAILED designs out of scope.",
                ref="DESIGN.md §3 C05"),
    "C06": dict(cat="fault_enumeration", tech="fault injection: enumerated failure scripts at the objective boundary (serial, and threaded with a controlled scheduler that makes failures overlap), executable reference model of the retry loop",
                text="Every single-design script of 0..5 transient failures x exception types, every non-transient type at every attempt, "
                     "(thorough) every two-design combination and threaded batches are injected through the harness objective; caller-"
                     "visible exception, failed list, attempts, replacement vectors and final records are compared with the model.",
                note="Trusted: the model in c06.py; exception subclasses not generated.",
                ref="DESIGN.md §3 C06"),
    "C08": dict(cat="exploration", tech="runtime monitor: box-membership oracle on operator outputs, generator outputs and every vector reaching the objective, under a hostile RNG",
                text="Operators are driven with boundary/coincident/almost-coincident parents over extreme boxes while random() returns "
                     "edge values; all generators; full runs of the five algorithms with an objective-side box monitor.",
                note="Tolerance rule from the statement (0 / 1e-12+4ulp / precision/2); aborted runs are counted, not judged.",
                ref="DESIGN.md §3 C08"),
    "C09": dict(cat="exploration", tech="runtime monitor: counting rules over populations() and the objective call log, oracle-dominance elitism check, pop_acceptance step model",
                text="Runs over (algorithm, N, G, n, m, seed) with and without injected transient failures are checked for exact tags, "
                     "sizes, budget, distinctness and NSGA-II elitism; every pop_acceptance step (direct and inside eps-MOEA) against "
                     "the three-way replacement rule.",
                note="Trusted: oracle dominance; failure rate <= 0.2, never five in a row.",
                ref="DESIGN.md §3 C09"),
    "C14": dict(cat="exploration", tech="runtime monitor: re-checking oracle over all earlier designs after every batch (neighbour set, call counts, sensitivity sum, forward difference)",
                text="Batch histories and real runs with the worst-case and gradient evaluators; after every batch every design "
                     "evaluated so far is re-validated, which is what exposes state leaking across batches.",
                note="Trusted: recomputation with the harness objective; batches of fresh designs.",
                ref="DESIGN.md §3 C14"),
    "C07": dict(cat="exploration", tech="controlled thread scheduler (gates + seeded grant policies) and sys.monitoring LINE-event yield injection; oracle = serial evaluation; DB rows vs final objects",
                text="Worker threads are parked at objective entry/exit, sync entry/exit and around every SQL execute/commit and released "
                     "in seeded orders (uniform, round-robin, LIFO, starve-one, PCT priorities) with the SQLite busy timeout shortened so "
                     "the locked/retry path occurs; further runs preempt at statement boundaries inside artap code. Each execution is "
                     "compared with serial evaluation of the same batch, the call log (once per design) and the persisted rows.",
                note="No completeness over schedules: gate/statement granularity, seeded policies; evidence lists distinct grant orders, max overlap, locked errors provoked.",
                ref="DESIGN.md §3 C07"),
    "C10": dict(cat="exploration", tech="runtime monitor: model-based checker (last synchronised snapshot per id) over random sync histories, read back through ProblemViewDataStore and raw rows",
                text="Histories of mutate/sync_individual/sync_all with inf, extreme floats, numpy scalars, nested unicode custom data, "
                     "references, repeated ids, both connection modes; stores left by real runs of eight algorithms.",
                note="Trusted: independent JSON normaliser; NaN and integer-valued costs excluded.",
                ref="DESIGN.md §3 C10"),
    "C11": dict(cat="fault_enumeration", tech="crash injection: os._exit at every Python-level SQL/objective event (sqlite3.connect proxy), SIGKILL at seeded instants, kernel kill (SIGXFSZ via RLIMIT_FSIZE) inside the write() of a commit, strace-injected SIGKILL inside write syscalls (thorough); post-mortem verifier",
                text="Nine writers (serial and threaded algorithm runs, one large transaction, a sweep under lock contention, a second session resuming the file of a finished one) are killed at every enumerated crash point after the store exists; each death is followed by a "
                     "post-mortem (view opens, definitions intact, returned synchronisations present with matching costs, no partial "
                     "row, integrity_check ok). Thorough adds kills inside pwrite64/unlink of SQLite's commit via strace fault injection.",
                note="Process death only (synchronous=0 makes power loss out of scope); RET log written with one write() on an O_APPEND fd.",
                ref="DESIGN.md §3 C11"),
}

NOT_BUILT = "check not built yet in this session (design in DESIGN.md §3); not claimed until its monitor exists"


def main():
    props = [json.loads(l)["id"] for l in open(os.path.join(HERE, "properties.jsonl"))]
    checks = []
    for pid in props:
        c = CHECKS.get(pid)
        if not c:
            continue
        checks.append({
            "property_id": pid,
            "quick_cmd": "./check %s --tier quick" % pid,
            "thorough_cmd": "./check %s --tier thorough" % pid,
            "evidence_file": "/verif/evidence/%s.json" % pid,
            "replay_cmd_template": "./check %s --replay {path}" % pid,
            "engine": "vlib",
            "level_claimed": {"category": c["cat"], "text": c["text"], "design_ref": c["ref"]},
            "level_note": c["note"],
            "technique": c["tech"],
        })
    na = [{"property_id": pid, "reason": NOT_BUILT} for pid in props if pid not in CHECKS]
    man = {
        "version": 1,
        "setup_cmd": "./setup.sh",
        "hooks": {
            "guard": "ARTAP_VERIF",
            "enable": "no source hooks: all instrumentation is applied from the harness (in-place wrappers, RNG/sqlite3 proxies, "
                      "LoggingProblem objectives); ./check exports ARTAP_VERIF=1 and imports the working tree via PYTHONPATH",
            "baseline_off_cmd": "cd /repo && /venv/bin/python -m pytest -ra -q -p no:cacheprovider --timeout=900 --continue-on-collection-errors",
            "source_commits": [],
            "add_only": True,
        },
        "engines": [{"name": "vlib", "path": "/verif/vlib", "serves_properties": [c["property_id"] for c in checks],
                     "kind_free_text": "Python runtime-monitoring harness: generated/hostile workloads drive the real artap code, "
                                       "independent oracles judge every observed execution"}],
        "checks": checks,
        "not_applicable": na,
        "notes": "Runtime monitoring only. Exit 0 held / 1 VIOLATION / 2 INCONCLUSIVE. Known findings: known_findings.json. Every workload family re-uses its objects across steps (state carried across calls is part of what is observed). The per-check texts give the core of each monitor; the workload dimensions added while hardening (value types and widths, sizes, provenance, re-use, siblings, entry points, names, ...) are listed in DESIGN.md 8-8.6 and in each evidence file's rule text. Self-validation: selftest/ (188 mutants), seeded/ (153 independent seeded changes in seven rounds; 149 caught, 4 documented misses), benign/ (80 behaviour-preserving patches, all silent), tools/recheck_seeds.sh, tools/recheck_benign.sh.",
    }
    with open(os.path.join(HERE, "MANIFEST.json"), "w") as f:
        json.dump(man, f, indent=1)
        f.write("\n")
    try:
        import jsonschema
        jsonschema.validate(man, json.load(open("/root/.vp/MANIFEST.schema.json")))
        print("MANIFEST.json valid; %d checks, %d not_applicable" % (len(checks), len(na)))
    except ImportError:
        print("written (jsonschema not available to validate)")


if __name__ == "__main__":
    main()
