#!/bin/bash
# usage: tools/sweep.sh <tier> "<seeds>" [ids...]   -- runs checks sequentially, prints one line per run
tier=$1; seeds=$2; shift 2
ids=${@:-C01 C02 C03 C04 C05 C06 C07 C08 C09 C10 C11 C12 C13 C14 C15 C16 C17 C18 C19 C20}
cd "$(dirname "$0")/.."
for s in $seeds; do for c in $ids; do
  t0=$(date +%s)
  out=$(VERIF_SEED=$s VERIF_EVIDENCE_DIR=${SWEEP_EVIDENCE:-/tmp/sweep-evidence} ./check $c --tier $tier 2>&1 | grep -v "^KNOWN-FINDING" | tail -3 | tr '\n' ' ')
  echo "seed=$s $c rc=$? $(( $(date +%s)-t0 ))s :: $out"
done; done
