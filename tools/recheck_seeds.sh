#!/bin/bash
# Re-runs the quick tier of each property's check against every kept seeded change (scratch worktree per change,
# removed afterwards) and refreshes seeded/<id>/meta.json["check"].  usage: tools/recheck_seeds.sh [-j N] [ID-X ...]
cd "$(dirname "$0")/.."
J=4; if [ "$1" = "-j" ]; then J=$2; shift 2; fi
list=${@:-$(ls seeded)}
printf "%s\n" $list | xargs -P $J -I{} sh -c 'id=$(echo {} | cut -d- -f1); x=$(echo {} | cut -d- -f2); python3 tools/verify_seed.py $id $x --from-seeded --no-suite | python3 -c "import json,sys; d=json.load(sys.stdin); print(\"{}\", d[\"verdict\"], d[\"check_seconds\"], (d[\"check_keys\"] or [\"\"])[0][:120])"'
