#!/bin/bash
# False-alarm probe: runs the quick tier of all checks (or the given ids) against every behaviour-preserving patch kept in
# benign/ (scratch worktree per patch, removed afterwards).  Every line must say "silent".
# usage: tools/recheck_benign.sh [-j N] [IDs...]
cd "$(dirname "$0")/.."
J=5; if [ "$1" = "-j" ]; then J=$2; shift 2; fi
ls benign/*.diff | xargs -P $J -I{} python3 tools/check_benign.py {} "$@" | grep -v " silent$" ; echo "done (only non-silent lines are shown above)"
