#!/usr/bin/env python3
"""Confirms a seeded change delivered by a sub-agent and runs our check against it.

usage: verify_seed.py <ID> <A|B> [--no-suite] [--tier quick]
 reads  /tmp/seed/<ID>/out/{patch_X.diff, demo_X.py, meta.json}   (round 2, variant C: /tmp/seed2/<ID>/out)
 1. scratch worktree of /repo HEAD (outside /repo and /verif), demo must exit 0 on it
 2. apply the patch; demo must exit non-zero; the pinned test-suite must keep all stable_pass tests passing
 3. ./check <ID> with ARTAP_TREE=<worktree> (evidence/replays redirected) -> CAUGHT / MISSED
 4. writes /verif/seeded/<ID>-<X>/{patch.diff, demo.py, meta.json}; removes the worktree
"""
import json
import os
import shutil
import subprocess
import sys
import tempfile
import xml.etree.ElementTree as ET

VERIF = os.path.dirname(os.path.dirname(os.path.abspath(__file__)))


def sh(cmd, **kw):
    return subprocess.run(cmd, capture_output=True, text=True, **kw)


def main():
    pid, x = sys.argv[1], sys.argv[2]
    suite = "--no-suite" not in sys.argv
    tier = sys.argv[sys.argv.index("--tier") + 1] if "--tier" in sys.argv else "quick"
    src = ("/tmp/seed7/%s/out" if x >= "H" else "/tmp/seed6/%s/out" if x >= "G" else "/tmp/seed5/%s/out" if x >= "F" else "/tmp/seed4/%s/out" if x >= "E" else "/tmp/seed3/%s/out" if x >= "D" else "/tmp/seed2/%s/out" if x >= "C" else "/tmp/seed/%s/out") % pid
    patch = os.path.join(src, "patch_%s.diff" % x)
    demo = os.path.join(src, "demo_%s.py" % x)
    kept = os.path.join(VERIF, "seeded", "%s-%s" % (pid, x))
    if "--from-seeded" in sys.argv or not os.path.exists(patch):
        patch = os.path.join(kept, "patch.diff")
        demo = os.path.join(kept, "demo.py")
        suite = suite and "--suite" in sys.argv
    meta_in = {}
    try:
        meta_in = json.load(open(os.path.join(src, "meta.json"))).get(x, {})
    except Exception:
        pass
    d = tempfile.mkdtemp(prefix="artap-vs-")
    wt = os.path.join(d, "wt")
    res = {"property": pid, "variant": x, "agent_summary": meta_in}
    try:
        sh(["git", "-C", "/repo", "worktree", "add", "-q", "--detach", wt, "HEAD"], check=True)
        env = dict(os.environ, PYTHONDONTWRITEBYTECODE="1")
        r0 = sh(["/venv/bin/python", "-B", "-W", "ignore", demo], cwd=wt, env=env, timeout=900)
        res["demo_exit_unchanged"] = r0.returncode
        ap = sh(["git", "-C", wt, "apply", "--whitespace=nowarn", patch])
        res["patch_applies"] = ap.returncode == 0
        if ap.returncode != 0:
            res["error"] = ap.stderr[-300:]
            print(json.dumps(res, indent=1))
            return 2
        touched = sh(["git", "-C", wt, "diff", "--stat"]).stdout
        res["diffstat"] = touched.strip().splitlines()[-1] if touched.strip() else ""
        res["touches_tests"] = "artap/tests" in touched
        r1 = sh(["/venv/bin/python", "-B", "-W", "ignore", demo], cwd=wt, env=env, timeout=900)
        res["demo_exit_changed"] = r1.returncode
        res["demo_output_changed"] = (r1.stdout + r1.stderr)[-400:]
        if suite:
            xml = os.path.join(d, "j.xml")
            sh(["/venv/bin/python", "-m", "pytest", "-q", "-p", "no:cacheprovider", "--timeout=900",
                "--continue-on-collection-errors", "--junitxml=" + xml], cwd=wt, env=env, timeout=3000)
            passed = set()
            for tc in ET.parse(xml).getroot().iter("testcase"):
                if not any(c.tag in ("failure", "error", "skipped") for c in tc):
                    passed.add("%s::%s" % (tc.get("classname"), tc.get("name")))
            sp = set(json.load(open("/root/.vp/BASELINE.json"))["stable_pass"])
            missing = sorted(sp - passed)
            res["suite_passed"] = len(passed)
            # the suite contains unseeded stochastic tests that fail now and then (more often on a loaded machine):
            # a stable test that is missing is re-run alone up to 3 times before the change is declared test-breaking
            flaky = []
            for t in list(missing):
                cls, name = t.split("::")
                parts = cls.split(".")
                node = "/".join(parts[:-1]) + ".py::" + parts[-1] + "::" + name
                for _ in range(3):
                    rr = sh(["/venv/bin/python", "-m", "pytest", "-q", "-p", "no:cacheprovider", "--timeout=900", node], cwd=wt, env=env, timeout=1800)
                    if rr.returncode == 0:
                        missing.remove(t)
                        flaky.append(t)
                        break
            res["suite_missing_stable"] = missing
            res["suite_flaky_rerun_passed"] = flaky
        ev = os.path.join(d, "ev")
        env2 = dict(os.environ, ARTAP_TREE=wt, VERIF_EVIDENCE_DIR=ev, VERIF_REPLAY_DIR=os.path.join(d, "rp"))
        env2.setdefault("VERIF_SEED", "0")
        import time
        t0 = time.time()
        c = sh([os.path.join(VERIF, "check"), pid, "--tier", tier], env=env2, timeout=3600)
        res["check_seconds"] = round(time.time() - t0, 1)
        res["check_exit"] = c.returncode
        res["check_keys"] = [l.strip()[:200] for l in c.stdout.splitlines() if l.strip().startswith("key=")][:6]
        caught = c.returncode == 1 and ("VIOLATION property=%s" % pid) in c.stdout
        res["verdict"] = "CAUGHT" if caught else "MISSED"
        if not caught:
            res["check_tail"] = (c.stdout[-300:] + c.stderr[-300:])
        valid = res["demo_exit_unchanged"] == 0 and res["demo_exit_changed"] != 0 and not res["touches_tests"] and \
            (not suite or not res["suite_missing_stable"])
        res["valid_seed"] = bool(valid)
        out = os.path.join(VERIF, "seeded", "%s-%s" % (pid, x))
        if valid and not suite and os.path.exists(os.path.join(out, "meta.json")):
            # re-check only: keep the recorded suite confirmation, refresh the check result
            mj = json.load(open(os.path.join(out, "meta.json")))
            mj["check"] = {"tier": tier, "seed": env2["VERIF_SEED"], "verdict": res["verdict"], "keys": res["check_keys"],
                           "seconds": res["check_seconds"]}
            json.dump(mj, open(os.path.join(out, "meta.json"), "w"), indent=1)
        elif valid:
            os.makedirs(out, exist_ok=True)
            if os.path.abspath(patch) != os.path.abspath(os.path.join(out, "patch.diff")):
                shutil.copy(patch, os.path.join(out, "patch.diff"))
                shutil.copy(demo, os.path.join(out, "demo.py"))
            json.dump({"property": pid, "variant": x,
                       "breaks": meta_in.get("summary"), "needs_to_manifest": meta_in.get("needs"),
                       "agent_ran": meta_in.get("ran"),
                       "confirmed": {"demo_exit_unchanged_tree": res["demo_exit_unchanged"], "demo_exit_changed_tree": res["demo_exit_changed"],
                                     "suite_stable_tests_missing": res.get("suite_missing_stable"), "suite_passed": res.get("suite_passed"),
                                     "how": "tools/verify_seed.py %s %s (scratch worktree of /repo HEAD, removed afterwards)" % (pid, x)},
                       "check": {"tier": tier, "seed": env2["VERIF_SEED"], "verdict": res["verdict"], "keys": res["check_keys"],
                                 "seconds": res["check_seconds"]}},
                      open(os.path.join(out, "meta.json"), "w"), indent=1)
        print(json.dumps(res, indent=1))
        return 0
    finally:
        sh(["git", "-C", "/repo", "worktree", "remove", "--force", wt])
        shutil.rmtree(d, ignore_errors=True)


if __name__ == "__main__":
    sys.exit(main())
