#!/usr/bin/env python3
"""Runs the pinned test suite on a scratch worktree of /repo HEAD (hooks off: there are
none) and compares the passes with BASELINE.json's stable_pass list."""
import json, os, subprocess, sys, tempfile, shutil
import xml.etree.ElementTree as ET
d = tempfile.mkdtemp(prefix="artap-bl-")
wt = os.path.join(d, "wt")
try:
    subprocess.run(["git", "-C", "/repo", "worktree", "add", "-q", "--detach", wt, "HEAD"], check=True)
    xml = os.path.join(d, "j.xml")
    env = dict(os.environ); env.pop("ARTAP_VERIF", None)
    subprocess.run(["/venv/bin/python", "-m", "pytest", "-ra", "-q", "-p", "no:cacheprovider", "--timeout=900",
                    "--continue-on-collection-errors", "--junitxml=" + xml], cwd=wt, env=env,
                   stdout=subprocess.DEVNULL, stderr=subprocess.DEVNULL)
    passed = set()
    for tc in ET.parse(xml).getroot().iter("testcase"):
        if not any(c.tag in ("failure", "error", "skipped") for c in tc):
            passed.add("%s::%s" % (tc.get("classname"), tc.get("name")))
    sp = set(json.load(open("/root/.vp/BASELINE.json"))["stable_pass"])
    missing = sorted(sp - passed)
    print("HEAD", subprocess.run(["git", "-C", "/repo", "rev-parse", "--short", "HEAD"], capture_output=True, text=True).stdout.strip(),
          "passed=%d stable_pass=%d missing=%d newly_passing=%d" % (len(passed), len(sp), len(missing), len(passed - sp)))
    for m in missing:
        print("  MISSING", m)
    for m in sorted(passed - sp):
        print("  newly passing", m)
    sys.exit(1 if missing else 0)
finally:
    subprocess.run(["git", "-C", "/repo", "worktree", "remove", "--force", wt])
    shutil.rmtree(d, ignore_errors=True)
