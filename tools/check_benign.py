#!/usr/bin/env python3
"""Runs checks against a behaviour-preserving patch (false-alarm probe).

usage: check_benign.py <patch.diff> [IDs...]   (default: all 20 checks, quick tier)
Applies the patch to a scratch worktree of /repo HEAD (removed afterwards) and runs each check with
ARTAP_TREE pointing at it; prints one line per check."""
import json
import os
import shutil
import subprocess
import sys
import tempfile

VERIF = os.path.dirname(os.path.dirname(os.path.abspath(__file__)))


def main():
    patch = os.path.abspath(sys.argv[1])
    ids = sys.argv[2:] or ["C%02d" % i for i in range(1, 21)]
    d = tempfile.mkdtemp(prefix="artap-bn-")
    wt = os.path.join(d, "wt")
    try:
        subprocess.run(["git", "-C", "/repo", "worktree", "add", "-q", "--detach", wt, "HEAD"], check=True)
        ap = subprocess.run(["git", "-C", wt, "apply", "--whitespace=nowarn", patch], capture_output=True, text=True)
        if ap.returncode != 0:
            print("PATCH DOES NOT APPLY", ap.stderr[-300:])
            return 2
        bad = 0
        for pid in ids:
            env = dict(os.environ, ARTAP_TREE=wt, VERIF_EVIDENCE_DIR=os.path.join(d, "ev"), VERIF_REPLAY_DIR=os.path.join(d, "rp"))
            env.setdefault("VERIF_SEED", "0")
            c = subprocess.run([os.path.join(VERIF, "check"), pid, "--tier", "quick"], env=env, capture_output=True, text=True, timeout=3600)
            lines = [l for l in c.stdout.splitlines() if not l.startswith("KNOWN-FINDING")]
            if c.returncode != 0:
                bad += 1
                keys = [l.strip()[:260] for l in lines if l.strip().startswith("key=") or l.startswith("INCONCLUSIVE")]
                print(os.path.basename(patch), pid, "ALARM rc=%d" % c.returncode, " || ".join(keys[:3]))
                for f in sorted(os.listdir(os.path.join(d, "rp")) if os.path.isdir(os.path.join(d, "rp")) else []):
                    if f.startswith(pid):
                        w = json.load(open(os.path.join(d, "rp", f)))
                        print("    witness:", json.dumps(w.get("witness"))[:700])
                        break
                if c.returncode == 2:
                    print("    stderr:", c.stderr[-500:])
            else:
                print(os.path.basename(patch), pid, "silent")
        return 1 if bad else 0
    finally:
        subprocess.run(["git", "-C", "/repo", "worktree", "remove", "--force", wt])
        shutil.rmtree(d, ignore_errors=True)


if __name__ == "__main__":
    sys.exit(main())
