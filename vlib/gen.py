"""Generators shared by several checks."""
import itertools
import math

import numpy as np

MARKERS_FEAS = [0, False, 0.0]
MARKERS_INFEAS = [True, 1, 0.5, 2, 1.0, 3.5]
# violation degrees are compared by magnitude ("the solution with a smaller constraint violation is preferred"): -v and +v are
# equally infeasible, and the objectives decide between them
MARKERS_SIGNED = [-1.0, 1.0, -0.5, 0.5, -2, 2, -3.5, 3.5]


def rand_float(r, lo_exp=-9, hi_exp=9, signed=True):
    v = r.uniform(1, 10) * 10.0 ** r.randint(lo_exp, hi_exp)
    if signed and r.random() < 0.5:
        v = -v
    return v


def cost_vector(r, m, style):
    """signed objective part (no marker)"""
    if style == "grid":
        return [float(r.randint(0, 3)) for _ in range(m)]
    if style == "grid_neg":
        return [float(r.randint(-2, 2)) for _ in range(m)]
    if style == "dyadic":
        return [r.randint(-64, 64) / 16.0 for _ in range(m)]
    if style == "float":
        return [r.uniform(-10, 10) for _ in range(m)]
    if style == "wide":
        return [rand_float(r) for _ in range(m)]
    if style == "dec7":
        return [round(r.uniform(-100, 100), 7) for _ in range(m)]
    raise ValueError(style)


def marker_value(r, p_infeasible=0.3, signed=True):
    if r.random() < p_infeasible:
        if signed and r.random() < 0.25:
            return r.choice(MARKERS_SIGNED)
        return r.choice(MARKERS_INFEAS)
    return r.choice(MARKERS_FEAS)


def related_vector(r, base):
    """a vector derived from base with ties / better / worse coordinates mixed"""
    out = []
    mode = r.choice(["tie_mix", "all_better", "all_worse", "one_diff", "copy", "mix"])
    for i, v in enumerate(base):
        if mode == "copy":
            out.append(v)
        elif mode == "all_better":
            out.append(v - abs(v) * r.choice([0, 0.5, 1e-3]) - r.choice([0, 1, 1e-6]))
        elif mode == "all_worse":
            out.append(v + abs(v) * r.choice([0, 0.5, 1e-3]) + r.choice([0, 1, 1e-6]))
        elif mode == "one_diff":
            out.append(v)
        else:
            c = r.random()
            if c < 0.4:
                out.append(v)
            elif c < 0.7:
                out.append(v - r.choice([1.0, 0.25, abs(v) * 0.1 + 1e-3]))
            else:
                out.append(v + r.choice([1.0, 0.25, abs(v) * 0.1 + 1e-3]))
    if mode == "one_diff" and out:
        k = r.randrange(len(out))
        out[k] = out[k] + r.choice([-1.0, 1.0, -1e-3, 1e-3])
    return out


def population_costs(r, size, m, template=None):
    """list of signed-cost vectors incl. marker, built from templates that force
    ties, duplicates, chains, antichains and layered fronts"""
    template = template or r.choice(["grid", "dups", "chain", "antichain", "layers", "float", "mixed_feas",
                                     "grid_feas"])
    out = []
    if template == "grid":
        for _ in range(size):
            out.append(cost_vector(r, m, "grid") + [0])
    elif template == "grid_feas":
        for _ in range(size):
            out.append(cost_vector(r, m, "grid") + [marker_value(r, 0.4)])
    elif template == "dups":
        base = [cost_vector(r, m, r.choice(["grid", "dyadic"])) + [0] for _ in range(max(1, size // 3))]
        for _ in range(size):
            out.append(list(r.choice(base)))
    elif template == "chain":
        v = cost_vector(r, m, "dyadic")
        for i in range(size):
            out.append([x + i * r.choice([1.0, 0.5]) for x in v] + [0])
    elif template == "antichain":
        if m == 1:
            return population_costs(r, size, m, "chain")
        for i in range(size):
            vec = [float(i), float(size - i)] + [float(r.randint(0, 2)) for _ in range(m - 2)]
            out.append(vec + [0])
    elif template == "layers":
        k = r.randint(1, max(1, min(6, size)))
        for i in range(size):
            layer = i % k
            if m == 1:
                out.append([float(layer)] + [0])
            else:
                t = r.randint(0, 5)
                out.append([float(t + layer), float(5 - t + layer)] + [float(layer)] * (m - 2) + [0])
    elif template == "float":
        for _ in range(size):
            out.append(cost_vector(r, m, "float") + [0])
    elif template == "mixed_feas":
        for _ in range(size):
            out.append(cost_vector(r, m, r.choice(["grid", "float"])) + [marker_value(r, 0.5)])
    if r.random() < 0.2:
        # the same population with every objective on its own scale (exact: powers of two); dominance, ranks and crowding
        # ratios are invariant, sums across objectives and absolute thresholds are not
        ks = [r.choice([0, 0, -300, 300, -1000, 900, r.randint(-1000, 900)]) for _ in range(m)]
        out = [[c[d] * 2.0 ** ks[d] for d in range(m)] + [c[-1]] for c in out]
    r.shuffle(out)
    return out


BOX_FAMILIES = ["unit", "neg", "mixed", "tiny", "huge", "offset", "asym"]


def box(r, family=None):
    family = family or r.choice(BOX_FAMILIES)
    if family == "unit":
        return [0.0, 1.0]
    if family == "neg":
        a = -r.uniform(1, 100)
        return [a - r.uniform(0.5, 50), a]
    if family == "mixed":
        return [-r.uniform(0.1, 10), r.uniform(0.1, 10)]
    if family == "tiny":
        c = r.uniform(-5, 5)
        w = 10.0 ** r.randint(-9, -3)
        return [c, c + w]
    if family == "huge":
        w = 10.0 ** r.randint(6, 12)
        c = r.uniform(-1, 1) * w
        return [c, c + w]
    if family == "offset":
        c = r.choice([-1, 1]) * 10.0 ** r.randint(3, 12)
        w = abs(c) * 10.0 ** r.randint(-6, -1)
        return [c, c + w]
    if family == "asym":
        return [r.uniform(-3, 0), r.uniform(0.001, 1000)]
    if family == "extreme":
        # finite bounds and a finite width, but sums of two coordinates overflow (not in BOX_FAMILIES: only workloads that
        # ask for it get it)
        k = r.choice(["pos", "neg", "span"])
        if k == "pos":
            lb = r.uniform(1, 9) * 10.0 ** r.randint(300, 307)
            return [lb, min(lb * r.uniform(1.01, 15), 1.79e308)]
        if k == "neg":
            ub = -r.uniform(1, 9) * 10.0 ** r.randint(300, 307)
            return [max(ub * r.uniform(1.01, 15), -1.79e308), ub]
        return [-r.uniform(1, 8.9) * 1e307, r.uniform(1, 8.9) * 1e307]
    raise ValueError(family)


def boxes(r, n, family=None):
    return [box(r, family) for _ in range(n)]


def point_in_box(r, bx, mode=None):
    lb, ub = bx
    mode = mode or r.choice(["lb", "ub", "mid", "rand", "rand", "near_lb", "near_ub"])
    if mode == "lb":
        return lb
    if mode == "ub":
        return ub
    if mode == "mid":
        return lb + (ub - lb) / 2
    if mode == "near_lb":
        return min(ub, math.nextafter(lb, math.inf))
    if mode == "near_ub":
        return max(lb, math.nextafter(ub, -math.inf))
    x = lb + r.random() * (ub - lb)
    return min(max(x, lb), ub)
