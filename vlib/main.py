"""Entry point:  python -m vlib.main <ID> --tier quick|thorough [--replay f] [--shard i/n --partial p]"""
import argparse
import importlib
import json
import os
import subprocess
import sys
import time
import traceback

from . import core


def guarded(ctx, mod, name, params):
    """An exception that escapes from the code under test (innermost frame inside the artap tree) while a workload
    drives it with in-domain inputs is a violation with the traceback as witness; anything else is a harness error."""
    try:
        mod.run_case(ctx, name, params)
    except Exception as e:
        tb = traceback.extract_tb(e.__traceback__)
        last = tb[-1] if tb else None
        if last is not None and os.path.abspath(last.filename).startswith(core.TREE + os.sep):
            ctx.violation("exception/%s/%s" % (type(e).__name__, last.name),
                          "the code under test raised %r in %s (%s:%s) on an in-domain workload" % (e, last.name, os.path.basename(last.filename), last.lineno),
                          {"traceback": traceback.format_exc()[-1500:]})
        else:
            raise


def run_cases(ctx, mod, only=None):
    if hasattr(mod, "setup"):
        mod.setup(ctx)
    try:
        if only is not None:
            name, params = only
            ctx.current_case = {"workload": name, "params": params}
            ctx.cases_run += 1
            guarded(ctx, mod, name, params)
        else:
            for i, (name, params) in enumerate(mod.cases(ctx)):
                if i % ctx.nshards != ctx.shard:
                    continue
                ctx.current_case = {"workload": name, "params": params}
                ctx.cases_run += 1
                guarded(ctx, mod, name, params)
                # stop early once a few distinct new mechanisms are on record
                if len(ctx.viol_keys) >= 25:
                    break
                # a violation outside the known findings is on record: look at a few more cases, then stop
                if ctx.cases_at_first_new_violation is not None and \
                        ctx.cases_run - ctx.cases_at_first_new_violation >= getattr(mod, "CASES_AFTER_VIOLATION", 40):
                    break
        ctx.current_case = None
    finally:
        if hasattr(mod, "teardown"):
            mod.teardown(ctx)


def main(argv=None):
    ap = argparse.ArgumentParser()
    ap.add_argument("pid")
    ap.add_argument("--tier", default=os.environ.get("VERIF_TIER", "quick"), choices=["quick", "thorough"])
    ap.add_argument("--replay")
    ap.add_argument("--shard")
    ap.add_argument("--partial")
    ap.add_argument("--shards", type=int)
    a = ap.parse_args(argv)
    pid = a.pid.upper()
    seed = int(os.environ.get("VERIF_SEED", "0") or 0)
    mod = importlib.import_module("vlib.checks." + pid.lower())
    level = mod.LEVEL

    if a.shard:  # ---------------- worker shard
        i, n = map(int, a.shard.split("/"))
        ctx = core.Ctx(pid, a.tier, seed, level, i, n)
        core.silence()
        core.scratch_dir()
        core.assert_tree()
        wd = core.start_watchdog(getattr(mod, "WATCHDOG", {}).get(a.tier, 3000), pid)
        try:
            run_cases(ctx, mod)
        except BaseException:
            traceback.print_exc(file=sys.__stderr__)
            ctx.not_reached("harness error in shard %d: %s" % (i, traceback.format_exc().splitlines()[-1]))
        wd.cancel()
        ctx.dump_partial(a.partial)
        core.cleanup_scratch()
        return 0

    ctx = core.Ctx(pid, a.tier, seed, level)
    if a.replay:  # ---------------- replay one recorded case
        core.silence()
        core.scratch_dir()
        core.assert_tree()
        with open(a.replay) as f:
            rec = json.load(f)
        ctx.tier = rec.get("tier", a.tier)
        ctx.seed = rec.get("seed", seed)
        case = rec["case"]
        try:
            run_cases(ctx, mod, only=(case["workload"], case["params"]))
        except BaseException:
            core.harness_error(pid, "replay")
            core.cleanup_scratch()
            return 2
        core.cleanup_scratch()
        if ctx.violations:
            for v in ctx.violations:
                core.say("VIOLATION property=%s replay=%s" % (pid, a.replay))
                core.say("  key=%s :: %s" % (v["key"], v["what"]))
                core.say("  witness=%s" % json.dumps(v["witness"])[:2000])
            return 1
        core.say("replay: no violation reproduced")
        return 0

    try:  # stale replay files of earlier runs of this property would only confuse
        import glob
        for f in glob.glob(os.path.join(core.REPLAY_DIR, pid + "-*.json")):
            os.unlink(f)
    except OSError:
        pass
    nshards = a.shards or getattr(mod, "SHARDS", {"quick": 1, "thorough": 16}).get(a.tier, 1)
    nshards = max(1, min(nshards, os.cpu_count() or 1))
    if nshards == 1:
        core.silence()
        core.scratch_dir()
        core.assert_tree()
        wd = core.start_watchdog(getattr(mod, "WATCHDOG", {}).get(a.tier, 3000), pid)
        try:
            run_cases(ctx, mod)
        except BaseException:
            core.harness_error(pid, "run_cases")
            ctx.not_reached("harness error: " + traceback.format_exc().splitlines()[-1])
        wd.cancel()
    else:
        sd = core.scratch_dir()
        procs = []
        env = dict(os.environ)
        env["VERIF_SCRATCH_BASE"] = sd
        for i in range(nshards):
            part = os.path.join(sd, "part%d.json" % i)
            cmd = [sys.executable, "-B", "-W", "ignore", "-m", "vlib.main", pid, "--tier", a.tier,
                   "--shard", "%d/%d" % (i, nshards), "--partial", part]
            procs.append((i, part, subprocess.Popen(cmd, env=env, cwd=core.VERIF)))
        limit = getattr(mod, "WATCHDOG", {}).get(a.tier, 3000) + 120
        deadline = time.time() + limit
        for i, part, p in procs:
            try:
                p.wait(timeout=max(1, deadline - time.time()))
            except subprocess.TimeoutExpired:
                p.kill()
                ctx.not_reached("shard %d exceeded the wall-clock watchdog" % i)
                continue
            if p.returncode != 0 or not os.path.exists(part):
                ctx.not_reached("shard %d exited with %s" % (i, p.returncode))
                continue
            ctx.merge_partial(part)
    if hasattr(mod, "requirements"):
        mod.requirements(ctx)
    rc = core.finish(ctx, mod)
    core.cleanup_scratch()
    return rc


if __name__ == "__main__":
    rc = main()
    sys.stdout.flush()
    os._exit(rc)
