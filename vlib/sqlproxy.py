"""sqlite3.connect proxy: numbers every connect and the moment before/after every execute and
commit; a callback can gate (C07) or kill the process (C11) at any of these events; the busy
timeout can be shortened so that lock contention surfaces as OperationalError quickly."""
import sqlite3
import threading

REAL_CONNECT = sqlite3.connect


class Proxy:
    def __init__(self, on_event=None, timeout=None):
        self.on_event = on_event
        self.timeout = timeout
        self.n_events = 0
        self.locked_errors = 0
        self.lock = threading.Lock()
        self.installed = False

    def event(self, kind, sql=None):
        with self.lock:
            self.n_events += 1
            n = self.n_events
        if self.on_event is not None:
            self.on_event(n, kind, sql)

    def connect(self, *a, **kw):
        if self.timeout is not None and "timeout" not in kw:
            kw["timeout"] = self.timeout
        self.event("connect")
        return PConn(REAL_CONNECT(*a, **kw), self)

    def install(self):
        sqlite3.connect = self.connect
        self.installed = True

    def uninstall(self):
        sqlite3.connect = REAL_CONNECT
        self.installed = False


class PConn:
    def __init__(self, real, proxy):
        self._real = real
        self._proxy = proxy

    def cursor(self):
        return PCursor(self._real.cursor(), self._proxy)

    def commit(self):
        self._proxy.event("commit:before")
        try:
            self._real.commit()
        except sqlite3.OperationalError:
            with self._proxy.lock:
                self._proxy.locked_errors += 1
            raise
        self._proxy.event("commit:after")

    def execute(self, sql, *a):
        return self.cursor().execute(sql, *a)

    def executemany(self, sql, *a):
        return self.cursor().executemany(sql, *a)

    def rollback(self):
        self._proxy.event("rollback")
        return self._real.rollback()

    # `with conn:` -- sqlite3 semantics: commit on success, roll back on an exception, never close
    def __enter__(self):
        return self

    def __exit__(self, et, ev, tb):
        if et is None:
            self.commit()
        else:
            self.rollback()
        return False

    def close(self):
        return self._real.close()

    def __getattr__(self, k):
        return getattr(self._real, k)


class PCursor:
    def __init__(self, real, proxy):
        self._real = real
        self._proxy = proxy

    def execute(self, sql, *a):
        self._proxy.event("execute:before", sql)
        try:
            self._real.execute(sql, *a)
        except sqlite3.OperationalError:
            with self._proxy.lock:
                self._proxy.locked_errors += 1
            raise
        self._proxy.event("execute:after", sql)
        return self

    def executemany(self, sql, *a):
        self._proxy.event("execute:before", sql)
        try:
            self._real.executemany(sql, *a)
        except sqlite3.OperationalError:
            with self._proxy.lock:
                self._proxy.locked_errors += 1
            raise
        self._proxy.event("execute:after", sql)
        return self

    def fetchall(self):
        return self._real.fetchall()

    def fetchone(self):
        return self._real.fetchone()

    def __iter__(self):
        return iter(self._real)

    def __getattr__(self, k):
        return getattr(self._real, k)
