"""Harness-side instrumentation: logging Problem, in-place wrappers, namespace scan."""
import atexit
import functools
import logging
import sys
import threading

from . import core

core.scratch_dir()  # must precede any Problem construction

from artap.problem import Problem  # noqa: E402
from artap.individual import Individual  # noqa: E402


def tame(problem):
    """Remove log handlers and the atexit clean-up a Problem registered."""
    try:
        for h in list(problem.logger.handlers):
            problem.logger.removeHandler(h)
        problem.logger.setLevel(logging.CRITICAL)
        problem.logger.propagate = False
    except Exception:
        pass
    try:
        atexit.unregister(problem.cleanup)
    except Exception:
        pass
    return problem


class Call:
    __slots__ = ("n", "tid", "vector", "result", "exc", "ind_id")

    def __init__(self, n, tid, vector, ind_id):
        self.n, self.tid, self.vector, self.ind_id = n, tid, vector, ind_id
        self.result = None
        self.exc = None


class LoggingProblem(Problem):
    """User objective defined by the harness.  Every call is logged under a lock.

    kwargs: n, m, bounds (list of [lb, ub]), criteria (list), fn(vector)->list,
    cons(vector)->list or None, script(call_no, vector, individual)->exception or None,
    params (full parameter dicts override), on_call(callable(vector)) for box monitors,
    entry_gate / exit_gate callables for schedulers."""

    def set(self, **kw):
        n = kw.get("n", 2)
        m = kw.get("m", 1)
        self.name = kw.get("name", "verif-problem")
        bounds = kw.get("bounds") or [[0.0, 1.0]] * n
        if kw.get("params") is not None:
            self.parameters = [dict(p) for p in kw["params"]]
        else:
            self.parameters = [{"name": "x%d" % i, "bounds": list(bounds[i])} for i in range(n)]
        crit = kw.get("criteria") or ["minimize"] * m
        self.costs = [{"name": "f%d" % j, "criteria": crit[j]} for j in range(m)]
        self._fn = kw.get("fn") or (lambda x: [sum(v * v for v in x)] * m)
        self._cons = kw.get("cons")
        self._script = kw.get("script")
        self._on_call = kw.get("on_call")
        self._entry_gate = kw.get("entry_gate")
        self._exit_gate = kw.get("exit_gate")
        self.calls = []
        self.cons_calls = 0
        self._lk = threading.Lock()
        if kw.get("predict") is not None:
            self.predict = kw["predict"]

    def evaluate(self, individual):
        vec = list(individual.vector)
        with self._lk:
            c = Call(len(self.calls), threading.get_ident(), vec, getattr(individual, "id", None))
            self.calls.append(c)
        if self._on_call is not None:
            self._on_call(vec)
        if self._entry_gate is not None:
            self._entry_gate(c)
        try:
            if self._script is not None:
                exc = self._script(c.n, vec, individual)
                if exc is not None:
                    c.exc = exc
                    raise exc
            res = self._fn(vec)
            c.result = list(res)
            return res
        finally:
            if self._exit_gate is not None:
                self._exit_gate(c)

    def evaluate_inequality_constraints(self, x):
        with self._lk:
            self.cons_calls += 1
        if self._cons is None:
            return []
        return self._cons(list(x))

    def ok_calls(self):
        return [c for c in self.calls if c.exc is None and c.result is not None]


def make_problem(**kw):
    return tame(LoggingProblem(**kw))


# ---------------------------------------------------------------- wrappers
class Patches:
    """In-place wrappers with restore.  wrap_attr(owner, name, maker) replaces
    owner.name by maker(original) and every identical reference found in loaded
    artap.* module namespaces (covers `from m import f`)."""

    def __init__(self):
        self.undo = []

    def wrap_attr(self, owner, name, maker, scan=False):
        raw = owner.__dict__[name] if name in getattr(owner, "__dict__", {}) else getattr(owner, name)
        orig = getattr(owner, name)
        func = raw.__func__ if isinstance(raw, (staticmethod, classmethod)) else raw
        new = maker(func)
        try:
            functools.update_wrapper(new, func)
        except Exception:
            pass
        if isinstance(raw, staticmethod):
            put = staticmethod(new)
        elif isinstance(raw, classmethod):
            put = classmethod(new)
        else:
            put = new
        setattr(owner, name, put)
        self.undo.append((owner, name, raw))
        if scan:
            for mname, mod in list(sys.modules.items()):
                if mod is None or not (mname == "artap" or mname.startswith("artap.")):
                    continue
                for k, v in list(vars(mod).items()):
                    if v is orig and not (mod is owner and k == name):
                        setattr(mod, k, new)
                        self.undo.append((mod, k, orig))
        return new

    def restore(self):
        for owner, name, raw in reversed(self.undo):
            setattr(owner, name, raw)
        self.undo = []


def import_all_artap():
    """Import the artap modules the checks touch, so that namespace scans see them."""
    import importlib
    for m in ("operators", "archive", "individual", "job", "problem", "datastore", "algorithm",
              "algorithm_genetic", "algorithm_NSGAII", "algorithm_swarm", "algorithm_sweep",
              "utils", "doe", "results", "quality_indicator", "surrogate"):
        importlib.import_module("artap." + m)


class ActiveJobs:
    """Counts Job.evaluate activations that are still running (worker threads of an aborted parallel batch keep going after the
    caller got its exception).  wait_idle() lets a case make sure nothing of an earlier batch is still executing."""

    def __init__(self):
        from artap.job import Job
        self.Job = Job
        self.lock = threading.Lock()
        self.active = 0
        self.orig = Job.evaluate
        outer = self

        def evaluate(job_self, individual, *a, **kw):
            with outer.lock:
                outer.active += 1
            try:
                return outer.orig(job_self, individual, *a, **kw)
            finally:
                with outer.lock:
                    outer.active -= 1
        functools.update_wrapper(evaluate, self.orig)
        Job.evaluate = evaluate

    def wait_idle(self, timeout=60.0):
        import time
        t_end = time.time() + timeout
        while time.time() < t_end:
            with self.lock:
                if self.active == 0:
                    return True
            time.sleep(0.002)
        return False

    def restore(self):
        self.Job.evaluate = self.orig
