"""Shared machinery: context, counters, verdicts, evidence, replay files,
known-findings classification, watchdog.

Verdicts are three-valued:
  exit 0  held on everything observed (and every deciding monitor was reached)
  exit 1  VIOLATION property=<id> replay=<path>
  exit 2  INCONCLUSIVE (watchdog, monitor never reached, wrong tree, harness error)
"""
import hashlib
import json
import os
import random
import shutil
import sys
import tempfile
import threading
import time
import traceback

VERIF = os.path.dirname(os.path.dirname(os.path.abspath(__file__)))
TREE = os.path.abspath(os.environ.get("ARTAP_TREE", "/repo"))
EVIDENCE_DIR = os.environ.get("VERIF_EVIDENCE_DIR") or os.path.join(VERIF, "evidence")
REPLAY_DIR = os.environ.get("VERIF_REPLAY_DIR") or os.path.join(VERIF, "replays")
KNOWN_FILE = os.path.join(VERIF, "known_findings.json")
EVIDENCE_SCHEMA = "/root/.vp/EVIDENCE.schema.json"

# the real stdout: verdict lines go here; everything the repository prints is dropped
OUT = sys.stdout
MAX_SAMPLES = 6
MAX_WITNESSES_PER_KEY = 3


def say(*a):
    print(*a, file=OUT, flush=True)


class _StderrFilter:
    """Drops joblib's progress chatter, keeps everything else."""

    def __init__(self, real):
        self.real = real

    def write(self, s):
        if s.startswith("[Parallel(") or s.strip() == "":
            return len(s)
        return self.real.write(s)

    def flush(self):
        self.real.flush()

    def __getattr__(self, k):
        return getattr(self.real, k)


def silence():
    sys.stdout = open(os.devnull, "w")
    sys.stderr = _StderrFilter(sys.stderr)
    import logging
    logging.disable(logging.CRITICAL)
    import warnings
    warnings.filterwarnings("ignore")


_SCRATCH = None


def scratch_dir():
    """Private scratch directory; also becomes tempfile.tempdir so that every
    artap Problem puts its working directory inside it."""
    global _SCRATCH
    if _SCRATCH is None:
        base = os.environ.get("VERIF_SCRATCH_BASE") or tempfile.gettempdir()
        _SCRATCH = tempfile.mkdtemp(prefix="artap-verif-", dir=base)
        tempfile.tempdir = _SCRATCH
    return _SCRATCH


def cleanup_scratch():
    global _SCRATCH
    if _SCRATCH and os.path.isdir(_SCRATCH):
        shutil.rmtree(_SCRATCH, ignore_errors=True)
    _SCRATCH = None


def assert_tree():
    import artap
    f = os.path.abspath(artap.__file__)
    if not f.startswith(TREE + os.sep):
        say("INCONCLUSIVE wrong tree: artap imported from %s, expected under %s" % (f, TREE))
        os._exit(2)


def jsonable(o, depth=0):
    """Best-effort conversion of witnesses/samples to JSON."""
    import math
    if depth > 8:
        return repr(o)
    if o is None or isinstance(o, (bool, int, str)):
        return o
    if isinstance(o, float):
        if math.isnan(o) or math.isinf(o):
            return repr(o)
        return o
    try:
        import numpy as np
        if isinstance(o, np.generic):
            return jsonable(o.item(), depth + 1)
        if isinstance(o, np.ndarray):
            return jsonable(o.tolist(), depth + 1)
    except Exception:
        pass
    if isinstance(o, dict):
        return {str(k): jsonable(v, depth + 1) for k, v in o.items()}
    if isinstance(o, (list, tuple, set, frozenset)):
        return [jsonable(v, depth + 1) for v in o]
    return repr(o)


class Ctx:
    def __init__(self, pid, tier, seed, level, shard=0, nshards=1):
        self.pid = pid
        self.tier = tier
        self.seed = seed
        self.level = level
        self.shard = shard
        self.nshards = nshards
        self.t0 = time.time()
        self.counters = {}
        self.distinct = set()
        self.samples = []
        self.sample_tags = {}
        self.violations = []        # list of dicts(key, what, witness)
        self.viol_keys = {}
        self.inconclusive = []
        self.extra = {}
        self.cases_run = 0
        self.current_case = None
        self.lock = threading.RLock()
        self.exhaustive = None
        self._known_keys = None
        self.cases_at_first_new_violation = None

    # ---- seeds
    def rng(self, *salt):
        h = hashlib.blake2b(repr((self.seed, self.pid) + salt).encode(), digest_size=8).digest()
        return random.Random(int.from_bytes(h, "big"))

    def subseed(self, *salt):
        h = hashlib.blake2b(repr((self.seed, self.pid) + salt).encode(), digest_size=6).digest()
        return int.from_bytes(h, "big")

    @property
    def quick(self):
        return self.tier == "quick"

    def pick(self, quick, thorough):
        return quick if self.tier == "quick" else thorough

    # ---- counters
    def count(self, name, n=1):
        with self.lock:
            self.counters[name] = self.counters.get(name, 0) + n

    def maxi(self, name, v):
        with self.lock:
            if v > self.extra.get(name, float("-inf")):
                self.extra[name] = v

    def nontrivial(self, key):
        with self.lock:
            self.counters["nontrivial_items_judged"] = self.counters.get("nontrivial_items_judged", 0) + 1
            self.distinct.add(hash(key))

    def sample(self, obj, tag="case", per_tag=2):
        with self.lock:
            k = self.sample_tags.get(tag, 0)
            if k < per_tag and len(self.samples) < 40:
                self.sample_tags[tag] = k + 1
                self.samples.append({"kind": tag, "case": jsonable(obj)})

    # ---- verdict inputs
    def violation(self, key, what, witness=None):
        """key: mechanism key (function/clause/condition), never seed or values."""
        with self.lock:
            if self._known_keys is None:
                self._known_keys = {e["key"] for e in load_known() if e.get("status") == "known" and e.get("property") == self.pid}
            if key not in self._known_keys and self.cases_at_first_new_violation is None:
                self.cases_at_first_new_violation = self.cases_run
            n = self.viol_keys.get(key, 0)
            self.viol_keys[key] = n + 1
            if n < MAX_WITNESSES_PER_KEY:
                self.violations.append({"key": key, "what": what,
                                        "case": jsonable(self.current_case),
                                        "witness": jsonable(witness)})

    def check(self, cond, key, what, witness=None, monitor=None):
        if monitor:
            self.count(monitor)
        if not cond:
            w = witness() if callable(witness) else witness
            self.violation(key, what, w)
        return bool(cond)

    def not_reached(self, why):
        with self.lock:
            self.inconclusive.append(why)

    def require(self, name, minimum=1):
        if self.counters.get(name, 0) < minimum:
            self.not_reached("monitor %s evaluated %d times, needs >= %d"
                             % (name, self.counters.get(name, 0), minimum))

    # ---- shard transport
    def dump_partial(self, path):
        with open(path, "w") as f:
            json.dump({"counters": self.counters, "distinct": list(self.distinct),
                       "samples": self.samples, "violations": self.violations,
                       "viol_keys": self.viol_keys, "inconclusive": self.inconclusive,
                       "extra": jsonable(self.extra), "cases_run": self.cases_run}, f)

    def merge_partial(self, path):
        with open(path) as f:
            d = json.load(f)
        for k, v in d["counters"].items():
            self.counters[k] = self.counters.get(k, 0) + v
        self.distinct.update(d["distinct"])
        for s in d["samples"]:
            if len(self.samples) < 12:
                self.samples.append(s)
        for v in d["violations"]:
            self.violations.append(v)
        for k, v in d["viol_keys"].items():
            self.viol_keys[k] = self.viol_keys.get(k, 0) + v
        self.inconclusive.extend(d["inconclusive"])
        for k, v in d["extra"].items():
            if isinstance(v, (int, float)) and isinstance(self.extra.get(k), (int, float)):
                if k.startswith("max_"):
                    self.extra[k] = max(self.extra[k], v)
                else:
                    self.extra[k] = self.extra[k] + v
            elif k not in self.extra:
                self.extra[k] = v
        self.cases_run += d["cases_run"]


def load_known():
    try:
        with open(KNOWN_FILE) as f:
            return json.load(f).get("findings", [])
    except FileNotFoundError:
        return []


def finish(ctx, mod, requirements=True):
    """Classify, write evidence, print verdict lines, return exit code."""
    known = {(e["property"], e["key"]): e for e in load_known() if e.get("status") == "known"}
    new, kf = [], {}
    for v in ctx.violations:
        e = known.get((ctx.pid, v["key"]))
        if e is not None:
            kf.setdefault(v["key"], (e, v))
        else:
            new.append(v)
    # keys with only counted (not stored) witnesses still have a stored first witness
    wall = time.time() - ctx.t0
    # evaluations = judged items: workload cases, or (when one case judges many items, e.g. every comparison of a grid or
    # every acceptance step of a run) the number of items handed to nontrivial(), whichever is larger
    evaluations = max(ctx.counters.get("cases", 0) or ctx.cases_run, ctx.counters.get("nontrivial_items_judged", 0))
    cov = {
        "evaluations": int(evaluations),
        "distinct_nontrivial": len(ctx.distinct),
        "rule": mod.RULE,
        "samples": ctx.samples[:12] if ctx.samples else [],
        "monitor_evaluations": dict(sorted(ctx.counters.items())),
        "cases_run": ctx.cases_run,
    }
    if ctx.exhaustive is not None:
        cov["exhaustive"] = bool(ctx.exhaustive)
    for k, v in ctx.extra.items():
        cov[k] = jsonable(v)
    if kf:
        cov["known_findings_observed"] = {k: ctx.viol_keys.get(k, 0) for k in kf}
    ev = {
        "property_id": ctx.pid, "tier": ctx.tier, "seed": int(ctx.seed), "level": ctx.level,
        "coverage": cov,
        "assumptions": list(getattr(mod, "ASSUMPTIONS", [])),
        "wall_s": round(wall, 3),
        "violations": len({v["key"] for v in new}),
    }
    os.makedirs(EVIDENCE_DIR, exist_ok=True)
    evpath = os.path.join(EVIDENCE_DIR, ctx.pid + ".json")
    tmp = evpath + ".tmp%d" % os.getpid()
    with open(tmp, "w") as f:
        json.dump(ev, f, indent=1, sort_keys=False)
        f.write("\n")
    os.replace(tmp, evpath)
    schema_ok = True
    try:
        import jsonschema
        with open(EVIDENCE_SCHEMA) as f:
            jsonschema.validate(ev, json.load(f))
    except FileNotFoundError:
        pass
    except ImportError:
        pass
    except Exception as e:  # schema violation: nothing this run says may be believed
        schema_ok = False
        say("INCONCLUSIVE evidence does not validate: %s" % str(e).splitlines()[0])

    for k, (e, v) in sorted(kf.items()):
        say("KNOWN-FINDING: property=%s %s [%s; observed %d times]"
            % (ctx.pid, e.get("what", k), k, ctx.viol_keys.get(k, 0)))
    if new:
        os.makedirs(REPLAY_DIR, exist_ok=True)
        seen = set()
        for v in new:
            if v["key"] in seen:
                continue
            seen.add(v["key"])
            h = hashlib.blake2b(json.dumps(v, sort_keys=True).encode(), digest_size=5).hexdigest()
            path = os.path.join(REPLAY_DIR, "%s-%s.json" % (ctx.pid, h))
            with open(path, "w") as f:
                json.dump({"property": ctx.pid, "tier": ctx.tier, "seed": ctx.seed,
                           "key": v["key"], "what": v["what"], "case": v["case"],
                           "witness": v["witness"],
                           "occurrences": ctx.viol_keys.get(v["key"], 1)}, f, indent=1)
                f.write("\n")
            say("VIOLATION property=%s replay=%s" % (ctx.pid, path))
            say("  key=%s :: %s" % (v["key"], v["what"]))
        return 1
    if ctx.inconclusive or not schema_ok:
        for w in ctx.inconclusive[:10]:
            say("INCONCLUSIVE property=%s %s" % (ctx.pid, w))
        return 2
    say("HELD property=%s tier=%s seed=%d cases=%d distinct_nontrivial=%d wall=%.1fs"
        % (ctx.pid, ctx.tier, ctx.seed, evaluations, len(ctx.distinct), wall))
    return 0


def start_watchdog(seconds, pid):
    def fire():
        say("INCONCLUSIVE property=%s watchdog fired after %ds" % (pid, seconds))
        try:
            import faulthandler
            faulthandler.dump_traceback(file=sys.__stderr__)
        except Exception:
            pass
        cleanup_scratch()
        os._exit(2)
    t = threading.Timer(seconds, fire)
    t.daemon = True
    t.start()
    return t


def harness_error(pid, where):
    say("INCONCLUSIVE property=%s harness error in %s" % (pid, where))
    traceback.print_exc(file=sys.__stderr__)
