"""C18 — swarm: personal best never regresses, velocity clamped, bound reset, leader set bounded."""
import itertools

from .. import gen, hooks, insitu, oracles, rng as vrng
from ..hooks import Patches
from .c01 import separated

PID = "C18"
LEVEL = "exploration"
RULE = ("generated swarms (sizes 1..30, dimensions 1..6, all box families, positions/velocities up to 1e6 ranges outside the box, "
        "arbitrary personal bests, leader archives of 1..N members) driven through the public update methods of OMOPSO, SMPSO and "
        "PSOGA, sequences of leader generations on one archive with the population-size option changed in between and with "
        "generations in which no particle enters, plus the same monitors inside full runs; oracles: sequential personal-best model keyed by the features dict, "
        "clamp bound, exact bound-reset model, archive invariants. non-trivial = update in which at least one particle keeps its "
        "old best / at least one coordinate is reset to a bound / a velocity is clamped; distinct by the pre-state")
ASSUMPTIONS = ["values are finite (no inf/NaN positions)", "leader invariants are judged on separated cost vectors only "
               "(the leader archive uses an epsilon comparator)"]
SHARDS = {"quick": 1, "thorough": 16}
WATCHDOG = {"quick": 900, "thorough": 3000}
ALGOS = ["omopso", "smpso", "psoga"]


def cases(ctx):
    for i in range(ctx.pick(900, 576000)):
        yield "direct", {"seed": ctx.subseed("d", i), "algo": ALGOS[i % 3]}
    for i in range(ctx.pick(54, 28800)):
        yield "insitu", {"seed": ctx.subseed("is", i), "algo": ALGOS[i % 3]}


# ------------------------------------------------------------------ monitors
def pre_best(pop):
    return [(id(p.features), list(p.costs_signed), p.features.get("best_cost"), p.features.get("best_vector"), p.vector)
            for p in pop]


def judge_best(ctx, pre, pop, tag):
    """sequential model keyed by the identity of the features dict"""
    ctx.count("pbest_updates")
    state = {}
    kept = False
    for fid, cs, bc, bv, vec in pre:
        if fid not in state:
            state[fid] = (bc, bv)
        cur_c, cur_v = state[fid]
        if cur_c is not None and oracles.odom(cur_c, cs) == 1:
            kept = True            # the old best dominates the new position: keep
        else:
            state[fid] = (cs, vec)
    for p, (fid, cs, bc, bv, vec) in zip(pop, pre):
        exp_c, exp_v = state[fid]
        got_c, got_v = p.features.get("best_cost"), p.features.get("best_vector")
        if list(got_c) != list(exp_c) or list(got_v) != list(exp_v):
            replaced_by_dominated = bc is not None and oracles.odom(bc, got_c) == 1
            ctx.violation("pbest/" + ("replaced_by_dominated" if replaced_by_dominated else "not_updated") + "/" + tag,
                          "personal best after update is %r, model (replace unless the old best dominates) says %r"
                          % (got_c, exp_c), {"new": cs, "old_best": bc, "got": got_c, "expected": exp_c})
            return
    if kept:
        ctx.nontrivial(("pb", tuple((tuple(c), None if b is None else tuple(b)) for _, c, b, _, _ in pre)))


def judge_velocity(ctx, alg, pop, tag):
    ctx.count("velocity_updates")
    for p in pop:
        v = p.features["velocity"]
        if len(v) != len(p.vector):
            ctx.violation("velocity/dimension", "velocity has %d components for %d coordinates" % (len(v), len(p.vector)), None)
            return
        for i, q in enumerate(alg.parameters):
            lb, ub = q["bounds"]
            d = (ub - lb) / 2.0
            ctx.count("velocity_components")
            if not (-d <= v[i] <= d):
                ctx.violation("velocity/clamp/" + tag, "velocity component %r outside +-%r (half the parameter range)" % (v[i], d),
                              {"bounds": [lb, ub], "velocity": v, "vector": p.vector})
                return
            if abs(v[i]) == d:
                ctx.nontrivial(("vc", lb, ub, v[i]))


def pre_pos(pop):
    return [(list(p.vector), list(p.features["velocity"])) for p in pop]


def judge_position(ctx, alg, kind, pre, pop, tag):
    ctx.count("position_updates")
    damp = 0.001 if kind == "smpso" else -1
    for p, (x0, v0) in zip(pop, pre):
        for i, q in enumerate(alg.parameters):
            lb, ub = q["bounds"]
            x = x0[i] + v0[i]
            v = v0[i]
            hit = None
            if x > ub:
                x, v, hit = ub, v0[i] * damp, "upper"
            elif x < lb:
                x, v, hit = lb, v0[i] * damp, "lower"
            ctx.count("position_components")
            if hit:
                ctx.count("position_bound_resets")
                ctx.nontrivial(("pos", kind, x0[i], v0[i], lb, ub))
            if p.vector[i] != x:
                ctx.violation("position/%s/coordinate/%s" % (kind, hit or "inside"),
                              "coordinate after update is %r, expected %r (x=%r v=%r box [%r, %r])" % (p.vector[i], x, x0[i], v0[i], lb, ub),
                              {"x": x0, "v": v0, "bounds": [lb, ub], "index": i})
                return
            if p.features["velocity"][i] != v:
                ctx.violation("position/%s/velocity/%s" % (kind, hit or "inside"),
                              "velocity after update is %r, expected %r (%s)" % (p.features["velocity"][i], v,
                                                                                "reversed" if damp == -1 else "damped by 0.001"),
                              {"x": x0, "v": v0, "bounds": [lb, ub], "index": i})
                return


def judge_leaders(ctx, alg, tag):
    ctx.count("leader_checks")
    N = alg.options["max_population_size"]
    L = list(alg.leaders)
    if len(L) > N:
        ctx.violation("leaders/size/" + tag, "leader archive has %d members, population size is %d" % (len(L), N), None)
        return
    cs = [tuple(i.costs_signed) for i in L]
    for a, b in itertools.combinations(cs, 2):
        if not separated(a, b):
            continue
        if oracles.odom(a, b) != 0:
            ctx.violation("leaders/dominated_member/" + tag, "leader archive holds a dominated member", {"a": a, "b": b})
            return
    if len(L) >= 2:
        ctx.nontrivial(("ld", tuple(cs)))


# ------------------------------------------------------------------ builders
def build(r, algo, n, m, N, fam):
    bxs = gen.boxes(r, n, fam)
    crit = ["minimize"] * m
    p = hooks.make_problem(n=n, m=m, bounds=bxs, criteria=crit)
    a = insitu.make(algo, p, N, 3)
    return p, a, bxs


def particle(r, bxs, m, far):
    from artap.algorithm_swarm import IndividualSwarm
    vec = []
    for lb, ub in bxs:
        w = ub - lb
        c = r.random()
        if far and c < 0.4:
            vec.append(lb + r.uniform(-1, 2) * w * 10.0 ** r.randint(0, 6))
        elif c < 0.6:
            vec.append(r.choice([lb, ub]))
        else:
            vec.append(lb + r.random() * w)
    ind = IndividualSwarm(vec)
    ind.costs = gen.cost_vector(r, m, r.choice(["grid", "dyadic", "float"]))
    ind.costs_signed = list(ind.costs) + [gen.marker_value(r, 0.2)]
    ind.features["crowding_distance"] = r.choice([0.0, 1.0, float("inf"), r.random()])
    return ind


def run_case(ctx, name, params):
    r = ctx.rng(name, params["seed"])
    algo = params["algo"]
    if name == "direct":
        n = r.randint(1, 6)
        m = r.randint(1, 3)
        N = r.randint(1, 30)
        p, a, bxs = build(r, algo, n, m, max(N, 2), r.choice(gen.BOX_FAMILIES))
        vrng.install(vrng.HostileRandom(params["seed"], 0.1))
        pop = [particle(r, bxs, m, True) for _ in range(N)]
        # --- personal best
        for q in pop:
            c = r.random()
            if c < 0.4:
                q.features["best_cost"] = gen.related_vector(r, q.costs_signed[:-1]) + [q.costs_signed[-1]]
            elif c < 0.6:
                q.features["best_cost"] = list(q.costs_signed)
            else:
                q.features["best_cost"] = gen.cost_vector(r, m, "grid") + [gen.marker_value(r, 0.2)]
            q.features["best_vector"] = [r.uniform(lb, ub) for lb, ub in bxs]
        if algo == "psoga" and N >= 2 and r.random() < 0.5:
            pop[-1].features = pop[0].features      # PSOGA lets two particles share one features dict
        pre = pre_best(pop)
        try:
            a.update_particle_best(pop)
        except Exception as e:
            ctx.violation("pbest/exception", "update_particle_best raised %r" % e, None)
            return
        judge_best(ctx, pre, pop, "direct")
        # --- velocity: needs leaders
        if algo == "psoga" and N >= 2:
            pop[-1].features = dict(pop[-1].features)
        leaders = [particle(r, bxs, m, False) for _ in range(r.randint(1, max(1, N)))]
        a.leaders._contents = list(leaders)
        try:
            a.update_velocity(pop)
        except Exception as e:
            ctx.violation("velocity/exception", "update_velocity raised %r" % e, {"bounds": bxs})
            return
        judge_velocity(ctx, a, pop, "direct")
        # --- position with arbitrary (not only clamped) velocities
        for q in pop:
            if r.random() < 0.5:
                q.features["velocity"] = [r.uniform(-3, 3) * (ub - lb) * 10.0 ** r.randint(-3, 4) for lb, ub in bxs]
        prep = pre_pos(pop)
        try:
            a.update_position(pop)
        except Exception as e:
            ctx.violation("position/exception", "update_position raised %r" % e, {"bounds": bxs})
            return
        judge_position(ctx, a, algo, prep, pop, "direct")
        # --- leaders: offer the swarm (fresh archive)
        from artap.archive import Archive
        a.leaders = Archive()
        swarm = [particle(r, bxs, max(m, 2) if algo == "omopso" else m, False) for _ in range(r.randint(1, 40))]
        try:
            a.update_global_best(swarm)
            a.update_global_best([particle(r, bxs, len(swarm[0].costs), False) for _ in range(r.randint(1, 40))])
        except Exception as e:
            ctx.violation("leaders/exception", "update_global_best raised %r" % e, None)
            return
        judge_leaders(ctx, a, "direct")
        # further generations on the same archive ("all sequences of generations"): the population size option may be changed
        # between them (a re-used algorithm object), and a generation may consist of particles that are all worse than every
        # leader (a stalled swarm: nothing enters the archive) -- the bound holds after every generation, against the size
        # declared at that moment
        mm = len(swarm[0].costs)
        for _gen in range(r.randint(0, 4)):
            if r.random() < 0.5:
                a.options["max_population_size"] = r.randint(1, 30)
                ctx.count("leader_generations_after_population_size_change")
            nxt = [particle(r, bxs, mm, False) for _ in range(r.randint(1, 20))]
            if r.random() < 0.4:
                # particles parked at one position (a corner of the box, a converged swarm) whose measured costs differ (noisy or
                # stateful objective): they are different solutions as far as dominance is concerned
                for q in nxt:
                    if r.random() < 0.5:
                        src = r.choice(list(a.leaders) + nxt)
                        q.vector = list(src.vector)
                ctx.count("leader_generations_with_particles_at_one_position")
            if r.random() < 0.5 and len(a.leaders) > 0:
                worst = [max(l.costs_signed[j] for l in a.leaders) for j in range(mm)]
                for q in nxt:
                    q.costs = [w + r.choice([0.5, 1.0, 3.0]) for w in worst]
                    q.costs_signed = list(q.costs) + [max(l.costs_signed[-1] for l in a.leaders)]
                ctx.count("leader_generations_with_no_entrant")
            try:
                a.update_global_best(nxt)
            except Exception as e:
                ctx.violation("leaders/exception", "update_global_best raised %r" % e, None)
                return
            judge_leaders(ctx, a, "direct_sequence")
        a.options["max_population_size"] = max(N, 2)
        if r.random() < 0.5:
            # the declared box is narrowed / moved in place (refinement run) and the SAME algorithm object goes on: clamp and
            # bound reset must follow the box that is declared now
            for q in p.parameters:
                lb, ub = q["bounds"]
                w = ub - lb
                a_, b_ = sorted([lb + r.uniform(0.0, 0.6) * w, lb + r.uniform(0.4, 1.0) * w])
                if b_ - a_ < 1e-3 * w:
                    a_, b_ = lb + 0.3 * w, lb + 0.6 * w
                q["bounds"][0], q["bounds"][1] = a_, b_
            bx2 = [tuple(q["bounds"]) for q in p.parameters]
            pop2 = [particle(r, bx2, m, True) for _ in range(r.randint(1, 8))]
            for q in pop2:
                q.features["best_vector"] = [r.uniform(lb, ub) for lb, ub in bx2]
            a.leaders._contents = [particle(r, bx2, m, False) for _ in range(2)]
            try:
                a.update_velocity(pop2)
                judge_velocity(ctx, a, pop2, "after_box_change")
                for q in pop2:
                    if r.random() < 0.5:
                        q.features["velocity"] = [r.uniform(-3, 3) * (ub - lb) for lb, ub in bx2]
                prep2 = pre_pos(pop2)
                a.update_position(pop2)
                judge_position(ctx, a, algo, prep2, pop2, "after_box_change")
            except Exception as e:
                ctx.violation("swarm/exception_after_box_change", "update after an in-place box change raised %r" % e, {"bounds": bx2})
                return
            ctx.count("updates_after_box_change")
        ctx.count("cases")
        ctx.sample({"algo": algo, "N": N, "n": n, "bounds": bxs[:2], "pre_position": prep[0]}, algo, 1)
    else:
        from artap import algorithm_swarm as sw
        setup = insitu.random_setup(r, algo=algo, max_N=16, max_G=8)
        cls = {"omopso": sw.OMOPSO, "smpso": sw.SMPSO, "psoga": sw.PSOGA}[algo]
        pt = Patches()

        def mk_best(orig):
            def update_particle_best(self, population, *a, **kw):
                pre = pre_best(population)
                res = orig(self, population, *a, **kw)
                judge_best(ctx, pre, list(population), "insitu")
                ctx.count("insitu_pbest_updates")
                return res
            return update_particle_best

        def mk_vel(orig):
            def update_velocity(self, individuals, *a, **kw):
                res = orig(self, individuals, *a, **kw)
                judge_velocity(ctx, self, list(individuals), "insitu")
                return res
            return update_velocity

        def mk_pos(orig):
            def update_position(self, individuals, *a, **kw):
                pre = pre_pos(individuals)
                res = orig(self, individuals, *a, **kw)
                judge_position(ctx, self, algo, pre, list(individuals), "insitu")
                ctx.count("insitu_position_updates")
                return res
            return update_position

        def mk_gb(orig):
            def update_global_best(self, swarm, *a, **kw):
                res = orig(self, swarm, *a, **kw)
                judge_leaders(ctx, self, "insitu")
                return res
            return update_global_best
        pt.wrap_attr(sw.SwarmAlgorithm, "update_particle_best", mk_best)
        owner = cls if "update_velocity" in cls.__dict__ else sw.SwarmAlgorithm
        pt.wrap_attr(owner, "update_velocity", mk_vel)
        pt.wrap_attr(cls, "update_position", mk_pos)
        pt.wrap_attr(cls, "update_global_best", mk_gb)
        try:
            p, a, err = insitu.run_one(setup, hostile=0.05)
        finally:
            pt.restore()
        ctx.count("insitu_runs")
        if err is not None:
            ctx.count("insitu_runs_aborted")
        else:
            judge_leaders(ctx, a, "end_of_run")
        ctx.count("cases")


def requirements(ctx):
    ctx.require("pbest_updates", 200)
    ctx.require("velocity_components", 2000)
    ctx.require("position_bound_resets", 500)
    ctx.require("leader_checks", 200)
    ctx.require("insitu_pbest_updates", 20)
    ctx.require("insitu_position_updates", 20)
