"""C12 — space-filling samplers: LHS strata, Halton radical inverse, uniform grid, random count."""
import itertools
import math

from .. import gen, oracles, rng as vrng

PID = "C12"
LEVEL = "exploration"
RULE = ("LHS/Halton/Uniform/Random generators over (n, N or k, box family, seed) with a seeded and a hostile numpy RandomState "
        "(rand entries 0.0 and 1-2^-53); every returned design is judged: stratum matching per parameter, exact-rational "
        "radical inverse in the j-th prime base, grid set equality, count and bounds. non-trivial = N>=2 samples (k>=2 "
        "levels) and n>=1; distinct by (generator, n, N, box, seed)")
ASSUMPTIONS = ["stratum edges are closed with a 4-ulp slack", "Halton/grid values compared with 1e-12 relative tolerance of the range"]
SHARDS = {"quick": 1, "thorough": 16}
WATCHDOG = {"quick": 900, "thorough": 3000}


def params_for(bxs, precisions=None):
    out = []
    for i, b in enumerate(bxs):
        p = {"name": "p%d" % i, "bounds": list(b)}
        if precisions and precisions[i] is not None:
            p["precision"] = precisions[i]
        out.append(p)
    return out


def slack(lb, ub, k=4):
    return k * math.ulp(max(abs(lb), abs(ub), abs(ub - lb)))


def cases(ctx):
    for i in range(ctx.pick(500, 48000)):
        yield "lhs", {"seed": ctx.subseed("l", i), "maxN": ctx.pick(200, 2000), "hostile": i % 3 == 0}
    for i in range(ctx.pick(240, 24000)):
        yield "halton", {"seed": ctx.subseed("h", i), "maxN": ctx.pick(200, 2000)}
    # digit-count boundaries of the radical inverse: N = p^k - 1, p^k, p^k + 1 for the j-th prime p with at least j parameters
    pr = oracles.primes(ctx.pick(8, 12))
    for j, pb in enumerate(pr, start=1):
        k = 1
        while pb ** k <= ctx.pick(16000, 250000):
            for N in (pb ** k - 1, pb ** k, pb ** k + 1):
                if N >= 1:
                    yield "halton_power", {"n": j + (k % 2), "N": N, "base_index": j, "seed": ctx.subseed("hp", j, k, N)}
            k += 1
    # very many parameters (one prime base each): 2000, and around the first 9505 / 10000 primes
    for n_ in ctx.pick([2000, 9506, 10001], [1200, 2000, 5000, 9505, 9506, 10001, 20011]):
        yield "halton_power", {"n": n_, "N": 3, "base_index": n_ - 1, "seed": ctx.subseed("hw", n_)}
    for i in range(ctx.pick(300, 30000)):
        yield "uniform", {"seed": ctx.subseed("u", i)}
    for i in range(ctx.pick(200, 20000)):
        yield "regenerate", {"seed": ctx.subseed("rg", i), "gen": ["lhs", "halton", "uniform", "random"][i % 4]}
    for i in range(ctx.pick(400, 36000)):
        yield "random", {"seed": ctx.subseed("r", i), "maxN": ctx.pick(200, 2000), "hostile": i % 2 == 0}


def shape_ok(ctx, gname, vecs, n, wit):
    for v in vecs:
        if len(v) != n:
            ctx.violation(gname + "/dimension", "a design has %d coordinates for %d parameters" % (len(v), n), wit())
            return False
        for x in v:
            if isinstance(x, complex) or x != x:
                ctx.violation(gname + "/not_real", "coordinate is not a real number", wit())
                return False
    return True


def run_case(ctx, name, params):
    from artap import operators
    r = ctx.rng(name, params["seed"])
    fam = r.choice(gen.BOX_FAMILIES)
    if name == "lhs":
        n = r.randint(1, 12)
        N = r.choice([1, 2, 3, 5, r.randint(1, 50), r.randint(1, params["maxN"])])
        bxs = gen.boxes(r, n, fam)
        RS = vrng.install_numpy(params["seed"] % (2 ** 31), p_edge=0.15 if params["hostile"] else 0.0)
        g = operators.LHSGenerator(params_for(bxs))
        g.init(N)
        wit = lambda: {"n": n, "N": N, "bounds": bxs, "seed": params["seed"], "hostile": params["hostile"]}
        try:
            vecs = g.generate()
        except Exception as e:
            ctx.violation("lhs/exception", "LHSGenerator.generate raised %r" % e, wit())
            return
        finally:
            vrng.uninstall_numpy()
            ctx.count("hostile_numpy_edge_entries", vrng.HostileRandomState.edges)
            vrng.HostileRandomState.edges = 0
        ctx.count("lhs_designs")
        if len(vecs) != N:
            ctx.violation("lhs/count", "returned %d samples for N=%d" % (len(vecs), N), wit())
            return
        if not shape_ok(ctx, "lhs", vecs, n, wit):
            return
        for j, (lb, ub) in enumerate(bxs):
            col = sorted(float(v[j]) for v in vecs)
            w = (ub - lb) / N
            s = slack(lb, ub)
            ctx.count("lhs_columns_checked")
            for i, x in enumerate(col):
                lo, hi = lb + i * w, lb + (i + 1) * w
                if not (lo - s <= x <= hi + s):
                    ctx.violation("lhs/stratum", "sorted sample %d of parameter %d (%r) is outside its stratum [%r, %r]"
                                  % (i, j, x, lo, hi), dict(wit(), column=col[:10]))
                    return
        if N >= 2:
            ctx.nontrivial(("lhs", n, N, tuple(map(tuple, bxs)), params["seed"]))
        ctx.count("cases")
        ctx.sample({"generator": "lhs", "n": n, "N": N, "bounds": bxs[:2], "first": [list(map(float, v)) for v in vecs[:2]]}, "lhs")
    elif name == "halton":
        n = r.choice([1, 2, 3, 4, 5, 6, r.randint(1, 12), r.randint(1, 30)])
        N = r.choice([1, 2, 7, r.randint(1, 60), r.randint(1, params["maxN"])])
        bxs = gen.boxes(r, n, fam)
        g = operators.HaltonGenerator(params_for(bxs))
        g.init(N)
        wit = lambda: {"n": n, "N": N, "bounds": bxs}
        try:
            vecs = g.generate()
        except Exception as e:
            ctx.violation("halton/exception", "HaltonGenerator.generate raised %r" % e, wit())
            return
        ctx.count("halton_designs")
        if len(vecs) != N:
            ctx.violation("halton/count", "returned %d points for N=%d" % (len(vecs), N), wit())
            return
        if not shape_ok(ctx, "halton", vecs, n, wit):
            return
        pr = oracles.primes(n)
        for i, v in enumerate(vecs, start=1):
            for j, (lb, ub) in enumerate(bxs):
                phi = oracles.radical_inverse(i, pr[j])
                exp = lb + float(phi) * (ub - lb)
                tol = 1e-12 * abs(ub - lb) + slack(lb, ub)
                ctx.count("halton_coordinates_checked")
                if abs(float(v[j]) - exp) > tol:
                    ctx.violation("halton/radical_inverse", "point %d coordinate %d is %r, radical inverse of %d in base %d "
                                  "scaled to the bounds is %r" % (i, j, float(v[j]), i, pr[j], exp), wit())
                    return
        if N >= 2:
            ctx.nontrivial(("halton", n, N, tuple(map(tuple, bxs))))
        ctx.count("cases")
        ctx.sample({"generator": "halton", "n": n, "N": N, "bounds": bxs[:2], "first": [list(map(float, v)) for v in vecs[:2]]}, "halton")
    elif name == "regenerate":
        # one generator object, used again after the sample count and the declared bounds were changed in place
        g = params["gen"]
        n = r.randint(1, 5)
        bxs = gen.boxes(r, n, fam)
        Pm = params_for(bxs)
        cls_ = {"lhs": operators.LHSGenerator, "halton": operators.HaltonGenerator, "uniform": operators.UniformGenerator,
                "random": operators.RandomGenerator}[g]
        # "minimal" histories: between two uses exactly one thing changes (one bound, or only N), everything else stays as it
        # was; the changed bound moves between values that Python hashes alike (-1 and -2, as int or float) or that compare
        # equal without being the same (0.0 / -0.0 / 0): whatever a generator remembers about its inputs, it must notice
        minimal = r.random() < 0.35
        if minimal:
            Pm = params_for([[r.choice([-1, -2, -1.0, -2.0]), r.choice([5, 3.5, 0.0, 1, 0])] for _ in range(n)])
            ctx.count("regenerate_minimal_change_histories")
        o = cls_(Pm)
        vrng.install(vrng.SeededRandom(params["seed"]))
        vrng.install_numpy(params["seed"] % (2 ** 31))
        try:
            N = None
            for round_ in range(5 if minimal else 3):
                if not minimal or N is None or r.random() < 0.25:
                    N = r.randint(2, 4) if g == "uniform" else r.randint(1, 40)
                    changed_n = True
                else:
                    changed_n = False
                o.init(N)
                if r.random() < 0.3:
                    # another generator object of the same class, for another problem, is used in between
                    o2 = cls_(params_for(gen.boxes(r, r.randint(1, 5), "unit")))
                    o2.init(r.randint(2, 3) if g == "uniform" else r.randint(1, 30))
                    o2.generate()
                    ctx.count("sibling_generator_uses_in_between")
                if round_ and minimal and not changed_n:
                    q = r.choice(Pm)
                    lb = q["bounds"][0]
                    q["bounds"][0] = {-1: -2, -2: -1}[int(lb)] if r.random() < 0.7 else float({-1: -2, -2: -1}[int(lb)])
                elif round_ and not minimal:
                    for q in Pm:
                        lb, ub = q["bounds"]
                        w = ub - lb
                        q["bounds"][0], q["bounds"][1] = lb + r.uniform(-0.5, 0.4) * w, ub + r.uniform(-0.4, 0.5) * w
                cur = [tuple(q["bounds"]) for q in Pm]
                wit = lambda: {"generator": g, "round": round_, "N": N, "bounds_now": cur}
                vecs = o.generate()
                ctx.count("regenerations")
                if len(vecs) != (N ** n if g == "uniform" else N):
                    ctx.violation("%s/count/regenerated" % g, "returned %d designs in round %d" % (len(vecs), round_), wit())
                    return
                for j, (lb, ub) in enumerate(cur):
                    col = sorted(float(v[j]) for v in vecs)
                    sl = slack(lb, ub)
                    if g == "lhs":
                        wdt = (ub - lb) / N
                        ok = all(lb + i * wdt - sl <= x <= lb + (i + 1) * wdt + sl for i, x in enumerate(col))
                    elif g == "halton":
                        pr = oracles.primes(n)
                        ok = all(abs(float(vecs[i - 1][j]) - (lb + float(oracles.radical_inverse(i, pr[j])) * (ub - lb)))
                                 <= 1e-12 * abs(ub - lb) + sl for i in range(1, min(N, 12) + 1))
                    elif g == "uniform":
                        step = (ub - lb) / (N - 1)
                        ok = all(abs(x - (lb + round((x - lb) / step) * step)) <= 1e-12 * abs(ub - lb) + sl and lb - sl <= x <= ub + sl for x in col) \
                            and abs(col[0] - lb) <= sl + 1e-12 * abs(ub - lb) and abs(col[-1] - ub) <= sl + 1e-12 * abs(ub - lb)
                    else:
                        ok = all(lb - 1e-12 - sl <= x <= ub + 1e-12 + sl for x in col)
                    if not ok:
                        ctx.violation("%s/structure/regenerated" % g, "design generated by a re-used generator object in round %d does not "
                                      "have its defining structure over the bounds declared now (parameter %d)" % (round_, j),
                                      dict(wit(), column=col[:8]))
                        return
        except Exception as e:
            ctx.violation("%s/exception/regenerated" % g, "%s generator raised %r when used again" % (g, e), {"bounds": bxs})
            return
        finally:
            vrng.uninstall_numpy()
        ctx.nontrivial(("rg", g, params["seed"]))
        ctx.count("cases")
    elif name == "halton_power":
        n, N = params["n"], params["N"]
        bxs = gen.boxes(r, n, fam)
        g = operators.HaltonGenerator(params_for(bxs))
        g.init(N)
        wit = lambda: {"n": n, "N": N, "bounds": bxs, "note": "N next to a power of the %d-th prime" % params["base_index"]}
        try:
            vecs = g.generate()
        except Exception as e:
            ctx.violation("halton/exception", "HaltonGenerator.generate raised %r" % e, wit())
            return
        if len(vecs) != N:
            ctx.violation("halton/count", "returned %d points for N=%d" % (len(vecs), N), wit())
            return
        if not shape_ok(ctx, "halton", vecs, n, wit):
            return
        pr = oracles.primes(n)
        idx = sorted({1, max(1, N - 2), max(1, N - 1), N} | {r.randint(1, N) for _ in range(40)})
        for i in idx:
            v = vecs[i - 1]
            for j, (lb, ub) in enumerate(bxs):
                exp = lb + float(oracles.radical_inverse(i, pr[j])) * (ub - lb)
                tol = 1e-12 * abs(ub - lb) + slack(lb, ub)
                ctx.count("halton_coordinates_checked")
                if abs(float(v[j]) - exp) > tol:
                    ctx.violation("halton/radical_inverse", "point %d coordinate %d is %r, radical inverse of %d in base %d scaled to the "
                                  "bounds is %r" % (i, j, float(v[j]), i, pr[j], exp), wit())
                    return
        ctx.count("halton_power_boundary_designs")
        ctx.nontrivial(("hp", n, N))
        ctx.count("cases")
    elif name == "uniform":
        n = r.randint(1, 6)
        k = r.randint(2, 7)
        while k ** n > 50000:
            n -= 1
        bxs = gen.boxes(r, n, fam)
        g = operators.UniformGenerator(params_for(bxs))
        g.init(k)
        wit = lambda: {"n": n, "k": k, "bounds": bxs}
        try:
            vecs = g.generate()
        except Exception as e:
            ctx.violation("uniform/exception", "UniformGenerator.generate raised %r" % e, wit())
            return
        ctx.count("uniform_designs")
        if len(vecs) != k ** n:
            ctx.violation("uniform/count", "returned %d designs, full grid has %d" % (len(vecs), k ** n), wit())
            return
        if not shape_ok(ctx, "uniform", vecs, n, wit):
            return
        # map each coordinate to its level index; the set of index tuples must be the full product, each once
        seen = set()
        for v in vecs:
            idx = []
            for j, (lb, ub) in enumerate(bxs):
                step = (ub - lb) / (k - 1)
                t = (float(v[j]) - lb) / step
                i = round(t)
                tol = 1e-12 * abs(ub - lb) + slack(lb, ub)
                if i < 0 or i > k - 1 or abs(float(v[j]) - (lb + i * step)) > tol:
                    ctx.violation("uniform/level", "coordinate %r of parameter %d is not one of the %d equally spaced levels "
                                  "from %r to %r" % (float(v[j]), j, k, lb, ub), wit())
                    return
                idx.append(i)
            seen.add(tuple(idx))
        ctx.count("uniform_grids_checked")
        if len(seen) != k ** n:
            ctx.violation("uniform/grid_set", "grid has repeated/missing combinations (%d distinct of %d)" % (len(seen), k ** n), wit())
            return
        ctx.nontrivial(("uniform", n, k, tuple(map(tuple, bxs))))
        ctx.count("cases")
        ctx.sample({"generator": "uniform", "n": n, "k": k, "bounds": bxs[:2], "first": vecs[:2]}, "uniform")
    elif name == "random":
        n = r.randint(1, 12)
        N = r.choice([1, 2, r.randint(1, 40), r.randint(1, params["maxN"])])
        bxs = gen.boxes(r, n, fam)
        precs = [None] * n
        if r.random() < 0.3:
            precs = [r.choice([None, 1e-3, 0.01, 0.5, 1e-6, 0.05, 0.4, 0.3, 5.0]) for _ in range(n)]
        rr = vrng.HostileRandom(params["seed"], 0.2) if params["hostile"] else vrng.SeededRandom(params["seed"])
        vrng.install(rr)
        g = operators.RandomGenerator(params_for(bxs, precs))
        g.init(N)
        wit = lambda: {"n": n, "N": N, "bounds": bxs, "precision": precs, "hostile": params["hostile"]}
        try:
            vecs = g.generate()
        except Exception as e:
            ctx.violation("random/exception", "RandomGenerator.generate raised %r" % e, wit())
            return
        ctx.count("random_designs")
        ctx.count("hostile_rng_edge_draws", getattr(rr, "edges", 0))
        if len(vecs) != N:
            ctx.violation("random/count", "returned %d designs for N=%d" % (len(vecs), N), wit())
            return
        if not shape_ok(ctx, "random", vecs, n, wit):
            return
        for v in vecs:
            for j, (lb, ub) in enumerate(bxs):
                t = (precs[j] / 2 if precs[j] else 1e-12) + slack(lb, ub, 2)
                ctx.count("random_coordinates_checked")
                if not (lb - t <= v[j] <= ub + t):
                    ctx.violation("random/bounds", "coordinate %r outside [%r, %r] (tolerance %g)" % (v[j], lb, ub, t), wit())
                    return
        if N >= 2:
            ctx.nontrivial(("random", n, N, tuple(map(tuple, bxs)), params["seed"]))
        ctx.count("cases")
        ctx.sample({"generator": "random", "n": n, "N": N, "bounds": bxs[:2], "first": vecs[:2]}, "random")


def requirements(ctx):
    ctx.require("lhs_columns_checked", 200)
    ctx.require("halton_coordinates_checked", 2000)
    ctx.require("uniform_grids_checked", 50)
    ctx.require("random_coordinates_checked", 2000)
