"""C10 — SQLite store round-trips problem and individuals; one row per id, last wins."""
import json
import math
import os
import sqlite3

import numpy as np

from .. import core, gen, hooks, insitu, rng as vrng

PID = "C10"
LEVEL = "exploration"
RULE = ("random histories of {mutate, sync_individual, sync_all} over 1..15 individuals with finite floats of all magnitudes, +-inf, "
        "numpy.float64, bools, nested JSON-native custom data (unicode), parent/child references, list/ndarray features, repeated "
        "ids, thread_safe True/False, compared through ProblemViewDataStore and raw rows with a model 'last synchronised snapshot "
        "per id'; stores after real runs of NSGA-II, eps-MOEA, OMOPSO, SMPSO, PSOGA, Sweep, SciPy, NLopt. non-trivial = history "
        "that re-synchronises a changed individual or contains inf/nested data, or a run; distinct by the history seed")
ASSUMPTIONS = ["NaN is excluded (not equal to itself)", "integer-valued costs (np.int64 after rounding) are outside the statement's float values",
               "feature values are the kinds the framework's algorithms write (numbers, None, lists, ndarrays, id lists)"]
SHARDS = {"quick": 1, "thorough": 16}
WATCHDOG = {"quick": 900, "thorough": 3000}


def cases(ctx):
    for i in range(ctx.pick(300, 36000)):
        yield "history", {"seed": ctx.subseed("h", i)}
    sizes = [1, 2, 64, 100, 256, 499, 500, 501, 1000, 1024] + ([] if ctx.quick else [10, 50, 128, 200, 250, 512, 2000, 2048, 4096, 5000, 10000])
    for i, sz in enumerate(sizes):
        yield "bulk", {"seed": ctx.subseed("bk", sz), "size": sz}
    for i in range(ctx.pick(40, 4000)):
        yield "two_stores", {"seed": ctx.subseed("ts", i)}
    algos = ["nsga2", "epsmoea", "omopso", "smpso", "psoga", "sweep", "scipy", "nlopt"]
    for i in range(ctx.pick(48, 4800)):
        yield "run", {"seed": ctx.subseed("r", i), "algo": algos[i % len(algos)]}


def norm(v):
    """independent JSON normal form of a stored value"""
    from artap.individual import Individual
    if isinstance(v, Individual):
        return v.id
    if isinstance(v, (bool, np.bool_)):
        return bool(v)
    if isinstance(v, (int, np.integer)):
        return int(v)
    if isinstance(v, (float, np.floating)):
        return float(v)
    if v is None or isinstance(v, str):
        return v
    if isinstance(v, dict):
        return {str(k): norm(x) for k, x in v.items()}
    if isinstance(v, (list, tuple, np.ndarray)):
        return [norm(x) for x in v]
    raise TypeError("harness: cannot normalise %r" % (v,))


def snapshot(ind):
    return {"vector": norm(list(ind.vector)), "costs": norm(list(ind.costs)), "costs_signed": norm(list(ind.costs_signed)),
            "population_id": norm(ind.population_id), "custom": norm(ind.custom),
            "features": {k: norm(v) for k, v in ind.features.items()}}


def same(a, b):
    """structural equality with bit-exact floats (and int/float distinction ignored only for equal values)"""
    if isinstance(a, float) or isinstance(b, float):
        if isinstance(a, bool) or isinstance(b, bool):
            return a == b and type(a) is type(b)
        try:
            return float(a) == float(b) and (math.copysign(1, float(a)) == math.copysign(1, float(b)) or a != 0)
        except (TypeError, ValueError):
            return False
    if isinstance(a, dict) and isinstance(b, dict):
        return a.keys() == b.keys() and all(same(a[k], b[k]) for k in a)
    if isinstance(a, list) and isinstance(b, list):
        return len(a) == len(b) and all(same(x, y) for x, y in zip(a, b))
    return a == b and (type(a) is type(b) or not isinstance(a, bool) and not isinstance(b, bool))


def rfloat(r):
    c = r.random()
    if c < 0.08:
        return r.choice([float("inf"), float("-inf")])
    if c < 0.2:
        return r.choice([0.0, -0.0, 1.0, -1.0, 5e-324, 1.7976931348623157e308, 2.2250738585072014e-308, 0.1, 1 / 3])
    if c < 0.5:
        return gen.rand_float(r, -300, 300)
    if c < 0.7:
        return np.float64(r.uniform(-1e6, 1e6))
    return r.uniform(-1000, 1000)


def rjson(r, depth=0):
    c = r.random()
    if depth > 2 or c < 0.35:
        return r.choice([None, True, False, r.randint(-10 ** 9, 10 ** 9), r.uniform(-1e3, 1e3), "text", "žluťoučký kůň ✓", "", 0, 1.5e300])
    if c < 0.7:
        return [rjson(r, depth + 1) for _ in range(r.randint(0, 4))]
    return {r.choice(["a", "b", "key with space", "ключ", "k%d" % r.randint(0, 9)]): rjson(r, depth + 1) for _ in range(r.randint(0, 4))}


def mutate(r, ind, pool):
    k = r.randint(1, 4)
    for _ in range(k):
        what = r.choice(["vector", "costs", "pop", "custom", "feature", "refs"])
        if what == "vector":
            ind.vector = [rfloat(r) for _ in range(len(ind.vector))]
        elif what == "costs":
            m = r.randint(1, 3)
            ind.costs = [rfloat(r) for _ in range(m)]
            ind.costs_signed = [rfloat(r) for _ in range(m)] + [r.choice([True, False])]
        elif what == "pop":
            ind.population_id = r.randint(-1, 50)
        elif what == "custom":
            ind.custom = {r.choice(["note", "n", "meta", "ü"]): rjson(r) for _ in range(r.randint(0, 3))}
        elif what == "feature":
            f = r.choice(["velocity", "best_cost", "dominate", "gradient", "crowding_distance", "front_number", "sensitivity", "best_vector"])
            if f == "velocity":
                ind.features[f] = [rfloat(r) for _ in range(len(ind.vector))]
            elif f == "best_cost":
                ind.features[f] = [rfloat(r), rfloat(r), r.choice([True, False])]
            elif f == "dominate":
                ind.features[f] = [p.id for p in r.sample(pool, r.randint(0, min(3, len(pool))))]
            elif f == "gradient":
                ind.features[f] = np.array([r.uniform(-5, 5) for _ in range(len(ind.vector))])
            elif f == "crowding_distance":
                ind.features[f] = r.choice([math.inf, 0.0, r.random()])
            elif f == "front_number":
                ind.features[f] = r.choice([None, 1, 2, 7])
            elif f == "sensitivity":
                ind.features[f] = rfloat(r)
            else:
                ind.features[f] = r.choice([None, [rfloat(r) for _ in range(len(ind.vector))]])
        else:
            ind.parents = r.sample(pool, r.randint(0, min(2, len(pool))))
            ind.children = r.sample(pool, r.randint(0, min(2, len(pool))))


def read_back(ctx, path, wit):
    from artap.problem import ProblemViewDataStore
    try:
        view = hooks.tame(ProblemViewDataStore(database_name=path))
    except Exception as e:
        ctx.violation("view/exception", "ProblemViewDataStore raised %r" % e, wit())
        return None
    return view


def compare(ctx, view, path, model, prob, wit, tag):
    """model: id -> snapshot"""
    ctx.count("store_comparisons")
    if view.name != prob.name:
        ctx.violation("view/problem_name", "problem name read back as %r" % view.name, wit())
        return False
    if not same(norm(view.parameters), norm(prob.parameters)):
        ctx.violation("view/parameters", "parameter definitions (or their order) differ after the round trip",
                      wit({"read": view.parameters, "written": prob.parameters}))
        return False
    if not same(norm(view.costs), norm(prob.costs)):
        ctx.violation("view/costs_definition", "cost definitions (or their order) differ after the round trip",
                      wit({"read": view.costs, "written": prob.costs}))
        return False
    conn = sqlite3.connect(path)
    nrows = conn.execute("SELECT count(*) FROM individuals").fetchone()[0]
    conn.close()
    if tag == "run":
        # Job.evaluate also writes designs that the algorithm later discards: rows are a superset of the recorded ones
        ctx.maxi("max_extra_rows_of_discarded_designs", nrows - len(model))
    if (nrows != len(model)) if tag != "run" else (nrows < len(model)):
        ctx.violation("rows/count/" + ("extra_rows" if nrows > len(model) else "missing_rows"),
                      "%d rows in the individuals table for %d distinct synchronised ids" % (nrows, len(model)), wit())
        return False
    got = {}
    for ind in view.individuals:
        if ind.id in got:
            ctx.violation("view/duplicate_id", "read-mode view returns id %r twice" % ind.id, wit())
            return False
        got[ind.id] = ind
    if (set(got) != set(model)) if tag != "run" else (not set(model) <= set(got)):
        ctx.violation("view/ids", "ids read back %s differ from synchronised ids %s" % (sorted(got)[:8], sorted(model)[:8]), wit())
        return False
    for i, snap in model.items():
        g = got[i]
        ctx.count("individual_comparisons")
        for field in ("vector", "costs", "costs_signed", "population_id", "custom", "features"):
            val = getattr(g, field)
            if not same(norm(val), snap[field]):
                sub = field
                if field == "features" and isinstance(val, dict):
                    bad = [k for k in snap[field] if k not in val or not same(norm(val[k]), snap[field][k])]
                    sub = "features"
                    extra = {"differing_features": bad[:5], "read": {k: val.get(k) for k in bad[:3]},
                             "synchronised": {k: snap[field][k] for k in bad[:3]}}
                else:
                    extra = {"read": val, "synchronised": snap[field]}
                ctx.violation("view/field/%s/%s" % (sub, tag), "field %s of individual %r read back differs from what was last synchronised"
                              % (field, i), wit(extra))
                return False
    return True


def run_case(ctx, name, params):
    from artap.individual import Individual
    from artap.datastore import SqliteDataStore
    r = ctx.rng(name, params["seed"])
    # file names with blanks and with characters that mean something in URIs, globs and SQL are ordinary names here
    pat_ = ["c10-%d-%d.sqlite", "c10-%d-%d.sqlite", "run#3-%d-%d.sqlite", "yield%%95 [a]+-%d-%d.sqlite", "q?mode=ro&x=1-%d-%d.sqlite",
            "it's-%d-%d.db"][params["seed"] % 6]
    path = os.path.join(core.scratch_dir(), pat_ % (os.getpid(), params["seed"] % 10 ** 9))
    if os.path.exists(path):
        os.unlink(path)
    try:
        if name == "two_stores":
            # two problems with different definitions, each with its own store file, written alternately; then two read-mode
            # views alive at the same time: each returns its own file's content, also when looked at again after the other one
            # was opened
            path2 = path + ".b"
            if os.path.exists(path2):
                os.unlink(path2)
            try:
                probs, stores, models = [], [], []
                for k_, pth in enumerate((path, path2)):
                    n_, m_ = r.randint(1, 4), r.randint(1, 3)
                    pk = hooks.make_problem(n=n_, m=m_, name="problem-%s-%d" % ("AB"[k_], r.randint(0, 99)),
                                            bounds=[[float(-k_ - j_), float(1 + k_ + j_)] for j_ in range(n_)],
                                            criteria=[r.choice(["minimize", "maximize"]) for _ in range(m_)])
                    st = SqliteDataStore(pk, database_name=pth, thread_safe=r.random() < 0.7)
                    pk.data_store = st
                    probs.append(pk); stores.append(st); models.append({})
                for _ in range(r.randint(2, 14)):
                    k_ = r.randrange(2)
                    ind = Individual([r.uniform(-1, 1) for _ in probs[k_].parameters])
                    ind.costs = [r.uniform(0, 9) for _ in probs[k_].costs]
                    ind.costs_signed = list(ind.costs) + [True]
                    probs[k_].individuals.append(ind)
                    stores[k_].sync_individual(ind)
                    models[k_][ind.id] = snapshot(ind)
                for st in stores:
                    st.destroy()
                wit = lambda extra=None: {"problems": [pk.name for pk in probs], "parameters": [len(pk.parameters) for pk in probs], "extra": extra}
                order = r.choice([(0, 1), (1, 0)])
                views = {}
                for k_ in order:
                    views[k_] = read_back(ctx, (path, path2)[k_], wit)
                    if views[k_] is None:
                        return
                    if r.random() < 0.5 and not compare(ctx, views[k_], (path, path2)[k_], models[k_], probs[k_], wit, "two_stores_fresh"):
                        return
                for k_ in (order[0], order[1], order[0]):
                    ctx.count("views_inspected_while_another_view_is_open")
                    if not compare(ctx, views[k_], (path, path2)[k_], models[k_], probs[k_], wit, "two_stores"):
                        return
                ctx.nontrivial(("ts", params["seed"]))
                ctx.count("cases")
            finally:
                for ext in ("", "-journal"):
                    try:
                        os.unlink(path2 + ext)
                    except OSError:
                        pass
            return
        if name == "bulk":
            # sync_all over a record of a round size (batching boundaries), once and again after changes
            size = params["size"]
            p = hooks.make_problem(n=2, m=1)
            ts = r.random() < 0.7
            store = SqliteDataStore(p, database_name=path, thread_safe=ts)
            p.data_store = store
            inds = []
            for k in range(size):
                ind = Individual([float(k), r.uniform(-1, 1)])
                ind.costs = [r.uniform(0, 9)]
                ind.costs_signed = [ind.costs[0], True]
                inds.append(ind)
                p.individuals.append(ind)
            wit = lambda extra=None: {"individuals": size, "thread_safe": ts, "extra": extra}
            model = {}
            for round_ in range(2):
                try:
                    store.sync_all()
                except Exception as e:
                    ctx.violation("sync/exception", "sync_all raised %r for %d individuals" % (e, size), wit())
                    return
                import gc
                gc.collect()
                for ind in inds:
                    model[ind.id] = snapshot(ind)
                view = read_back(ctx, path, wit)
                if view is None or not compare(ctx, view, path, model, p, wit, "bulk"):
                    return
                for ind in r.sample(inds, max(1, size // 10)):
                    ind.costs = [r.uniform(0, 9)]
                    ind.costs_signed = [ind.costs[0], True]
                    ind.population_id = 3
            store.destroy()
            ctx.count("bulk_sync_all_records", 1)
            ctx.nontrivial(("bulk", size))
            ctx.count("cases")
        elif name == "history":
            n = r.randint(1, 4)
            m = r.randint(1, 3)
            prm = [{"name": "par_%d_%s" % (i, r.choice(["a", "ž", "x y"])), "bounds": [rfloat(r) if False else r.uniform(-9, 0), r.uniform(0.1, 9)],
                    **({"initial_value": r.uniform(-1, 1)} if r.random() < 0.5 else {}), **({"tol": 0.1} if r.random() < 0.3 else {})}
                   for i in range(n)]
            r.shuffle(prm)
            p = hooks.make_problem(n=n, m=m, params=prm, criteria=[r.choice(["minimize", "maximize"]) for _ in range(m)],
                                   name=r.choice(["verif", "problém č. 1", "name with 'quotes'"]))
            ts = r.random() < 0.6
            store = SqliteDataStore(p, database_name=path, mode=r.choice(["write", "rewrite"]), thread_safe=ts)
            p.data_store = store
            k = r.randint(1, 15)
            pool = []
            for _ in range(k):
                ind = Individual([rfloat(r) for _ in range(n)])
                if pool and r.random() < 0.1:
                    ind.id = r.choice(pool).id      # repeated id: the later synchronisation wins
                pool.append(ind)
                p.individuals.append(ind)
            model = {}
            nontrivial = False
            nops = r.randint(1, 60)
            ops = []
            wit = lambda extra=None: {"thread_safe": ts, "operations": ops[-12:], "individuals": k, "extra": extra}
            for _ in range(nops):
                c = r.random()
                if c < 0.45:
                    ind = r.choice(pool)
                    mutate(r, ind, pool)
                    ops.append(("mutate", ind.id))
                elif c < 0.9:
                    ind = r.choice(pool)
                    holder = None
                    if ts and r.random() < 0.012:
                        # another connection holds the write lock for a while (a second worker, a viewer...): the busy time-out
                        # is shortened to 50 ms so that the synchronisation runs into "database is locked" and has to retry
                        import threading
                        import time as _t
                        from .. import sqlproxy
                        held = threading.Event()
                        if r.random() < 0.5:
                            try:
                                p.options["time_out"] = r.choice([0.001, 0.05])      # an option of another subsystem, at the edge of its range
                                ctx.count("contended_syncs_with_a_tiny_time_out_option")
                            except Exception:
                                pass
                        hold_s = r.choice([0.08, 0.13, 0.35, 0.7])      # 1 .. ~10 busy time-outs: the write has to be retried again and again

                        def hold():
                            cn = sqlproxy.REAL_CONNECT(path, isolation_level=None, timeout=1.0)
                            cn.execute("BEGIN EXCLUSIVE")
                            held.set()
                            _t.sleep(hold_s)
                            cn.execute("COMMIT")
                            cn.close()
                        holder = threading.Thread(target=hold)
                        holder.start()
                        held.wait(2.0)
                        prx = sqlproxy.Proxy(timeout=0.05)
                        prx.install()
                    try:
                        try:
                            store.sync_individual(ind)
                        finally:
                            if holder is not None:
                                prx.uninstall()
                                holder.join()
                                ctx.count("syncs_under_lock_contention")
                                ctx.count("database_locked_errors_provoked", prx.locked_errors)
                    except Exception as e:
                        ctx.violation("sync/exception", "sync_individual raised %r" % e, wit({"individual": snapshot(ind)}))
                        return
                    if ind.id in model:
                        nontrivial = True
                    model[ind.id] = snapshot(ind)
                    ops.append(("sync_individual", ind.id))
                else:
                    try:
                        store.sync_all()
                    except Exception as e:
                        ctx.violation("sync/exception", "sync_all raised %r" % e, wit())
                        return
                    for ind in p.individuals:
                        model[ind.id] = snapshot(ind)
                    ops.append(("sync_all",))
                ctx.count("store_operations")
                if r.random() < 0.05 and model and ts:
                    # a second writer on the SAME file while this store stays alive (a post-processing script, a second session): it
                    # loads the recorded individuals, changes some and synchronises; then this store synchronises its own, unchanged
                    # individuals again -- the file holds what was synchronised last, whoever wrote in between
                    pB = hooks.make_problem(n=n, m=m, params=[dict(q) for q in p.parameters], criteria=[c.get("criteria", "minimize") for c in p.costs], name=p.name)
                    try:
                        sB = SqliteDataStore(pB, database_name=path, mode="write", thread_safe=True)
                        pB.data_store = sB
                        for ib in pB.individuals:
                            if r.random() < 0.7:
                                ib.custom = {"edited_by": "second writer", "k": r.randint(0, 9)}
                                ib.population_id = 77
                        sB.sync_all()
                        sB.destroy()
                        store.sync_all()
                    except Exception as e:
                        ctx.violation("sync/exception", "synchronising with a second writer on the same file raised %r" % e, wit())
                        return
                    for ind in p.individuals:
                        model[ind.id] = snapshot(ind)
                    ops.append(("second_writer_then_sync_all",))
                    ctx.count("sync_all_after_a_second_writer_changed_the_file")
                    view = read_back(ctx, path, wit)
                    if view is None or not compare(ctx, view, path, model, p, wit, "history"):
                        return
                if r.random() < 0.06 and model:
                    # the run is interrupted and continued: the file is reopened in write mode by a new problem object (which
                    # loads what is there), and synchronisation goes on with the same individuals
                    store.destroy()
                    p2 = hooks.make_problem(n=n, m=m, params=[dict(q) for q in p.parameters], criteria=[c.get("criteria", "minimize") for c in p.costs], name=p.name)
                    try:
                        store = SqliteDataStore(p2, database_name=path, mode="write", thread_safe=ts)
                    except Exception as e:
                        ctx.violation("reopen/exception", "reopening the store in write mode raised %r" % e, wit())
                        return
                    p2.data_store = store
                    loaded = {i.id for i in p2.individuals}
                    if loaded != set(model):
                        ctx.violation("reopen/loaded_ids", "a store reopened in write mode loads ids %s, synchronised were %s"
                                      % (sorted(loaded)[:8], sorted(model)[:8]), wit())
                        return
                    p2.individuals[:] = list(p.individuals)      # the run continues with its own objects
                    p = p2
                    ops.append(("reopen_in_write_mode",))
                    ctx.count("reopens_in_write_mode")
                if r.random() < 0.15 and model:
                    view = read_back(ctx, path, wit)
                    if view is None or not compare(ctx, view, path, model, p, wit, "history"):
                        return
            if not model:
                store.sync_all()
                for ind in p.individuals:
                    model[ind.id] = snapshot(ind)
            store.destroy()
            view = read_back(ctx, path, wit)
            if view is None or not compare(ctx, view, path, model, p, wit, "history"):
                return
            if nontrivial:
                ctx.nontrivial(("h", params["seed"]))
            ctx.count("cases")
            ctx.sample({"thread_safe": ts, "individuals": k, "operations": ops[:10], "rows": len(model)}, "history")
        else:
            algo = params["algo"]
            vrng.install(vrng.SeededRandom(params["seed"]))
            vrng.install_numpy(params["seed"] % 2 ** 31)
            setup = insitu.random_setup(r, algo=algo if algo in insitu.ALGOS else "nsga2", max_N=10, max_G=5,
                                        families=["unit", "mixed", "neg", "asym"])
            if algo in ("scipy", "nlopt"):
                setup["m"] = 1
                setup["criteria"] = [r.choice(["minimize", "maximize"])]
                setup["kind"] = "sphere"
                setup["constrained"] = False
            p = insitu.build_problem(setup)
            for q in p.parameters:
                q["initial_value"] = (q["bounds"][0] + q["bounds"][1]) / 2
            ts = True if r.random() < 0.7 else False
            p.data_store = SqliteDataStore(p, database_name=path, thread_safe=ts)
            wit = lambda extra=None: {"algo": algo, "setup": {k: setup[k] for k in ("n", "m", "N", "G", "seed")}, "thread_safe": ts, "extra": extra}
            try:
                if algo in insitu.ALGOS:
                    a = insitu.make(algo, p, setup["N"], setup["G"])
                elif algo == "sweep":
                    from artap.algorithm_sweep import SweepAlgorithm
                    from artap.operators import LHSGenerator
                    g = LHSGenerator(p.parameters)
                    g.init(setup["N"])
                    a = SweepAlgorithm(p, generator=g)
                elif algo == "scipy":
                    from artap.algorithm_scipy import ScipyOpt
                    a = ScipyOpt(p)
                    a.options["algorithm"] = r.choice(["Nelder-Mead", "Powell", "COBYLA"])
                    a.options["n_iterations"] = 8
                else:
                    from artap import algorithm_nlopt as an
                    a = an.NLopt(p)
                    a.options["algorithm"] = r.choice([an.LN_BOBYQA, an.LN_COBYLA, an.LN_NELDERMEAD])
                    a.options["n_iterations"] = 15
                    a.options["verbose_level"] = 0
                a.run()
            except Exception as e:
                import traceback
                if type(e).__module__.split(".")[0] == "nlopt":
                    # the external optimiser gave up (RoundoffLimited, ForcedStop): the run did not finish, nothing to judge
                    ctx.count("runs_aborted_by_external_optimiser")
                    return
                ctx.violation("run/%s/exception" % algo, "%s run with an SQLite store raised %r" % (algo, e), wit({"tb": traceback.format_exc()[-600:]}))
                return
            finally:
                vrng.uninstall_numpy()
            ctx.count("runs")
            p.data_store.destroy()
            model = {}
            for ind in p.individuals:
                model[ind.id] = snapshot(ind)
            if len(model) != len(p.individuals):
                ctx.count("runs_with_repeated_ids")
            view = read_back(ctx, path, wit)
            if view is None or not compare(ctx, view, path, model, p, wit, "run"):
                return
            ctx.nontrivial(("run", algo, params["seed"]))
            ctx.count("cases")
            ctx.sample({"algo": algo, "recorded": len(p.individuals), "rows": len(model), "thread_safe": ts}, "run_" + algo, 1)
    finally:
        for ext in ("", "-journal", "-wal", "-shm"):
            try:
                os.unlink(path + ext)
            except OSError:
                pass


def requirements(ctx):
    ctx.require("store_operations", 1000)
    ctx.require("store_comparisons", 150)
    ctx.require("individual_comparisons", 1000)
    ctx.require("runs", 16)
