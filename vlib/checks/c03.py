"""C03 — environmental selection: rank first, then crowding, no duplicates; tournament."""
import itertools
import math
import random

from .. import gen, insitu, oracles, rng as vrng
from ..hooks import Patches

PID = "C03"
LEVEL = "exploration"
RULE = ("generated fronts (with/without tied values, zero-range objectives, objectives rescaled by 2**-1000..2**900) through crowding_distance; ranked populations "
        "with duplicated designs, hash-colliding vectors and k from 1 to 2*size through nondominated_truncate; size-2 and "
        "larger populations through TournamentSelector.select with the drawn pair tapped, again with the same selector after the same design objects were re-evaluated in place (labels stale, then ranked again); the same monitors inside NSGA-II/"
        "SMPSO/PSOGA/OMOPSO runs. non-trivial: front of >=3 members / truncation that actually cuts or de-duplicates / "
        "tournament whose two candidates differ in front or dominance; distinct by the cost (and vector) lists")
ASSUMPTIONS = ["vectors closer than 1e-10 but not identical are not generated (equality and hashing legitimately disagree there)",
               "exact crowding formula demanded only for fronts without tied objective values, as stated"]
SHARDS = {"quick": 1, "thorough": 16}
WATCHDOG = {"quick": 900, "thorough": 3000}


NUMPY_COSTS = [False]


def _ind(vector, costs_signed, cls=None):
    from artap.individual import Individual
    import numpy as np
    ind = (cls or Individual)(list(vector))
    if NUMPY_COSTS[0]:
        # what calc_signed_costs really stores: numpy.float64 objectives followed by a Python bool/number marker
        ind.costs_signed = [np.float64(c) for c in costs_signed[:-1]] + [costs_signed[-1]]
    else:
        ind.costs_signed = list(costs_signed)
    ind.costs = list(costs_signed[:-1])
    return ind


def _selector():
    from artap.operators import TournamentSelector
    return TournamentSelector([{"name": "x", "bounds": [0, 1]}])


# ------------------------------------------------------------------ crowding
def judge_crowding(ctx, snap, members, tag):
    """snap: costs_signed at entry (same order as members)"""
    ctx.count("crowding_calls")
    n = len(members)
    if n == 0:
        return
    got = [i.features.get("crowding_distance") for i in members]
    if any(g is None for g in got):
        ctx.violation("crowding/missing", "member without crowding distance", {"costs": snap})
        return
    m = len(snap[0]) - 1
    if n >= 3:
        ctx.nontrivial(("cd", tuple(map(tuple, snap))))
    if n <= 2:
        if not all(g == math.inf for g in got):
            ctx.violation("crowding/small_front_not_inf", "front of <=2 members must be all infinite",
                          {"costs": snap, "got": got})
        return
    for g in got:
        if not (g >= 0):
            ctx.violation("crowding/negative", "negative or NaN crowding distance", {"costs": snap, "got": got})
            return
        if g != math.inf and g > m * (1 + 1e-9):
            ctx.violation("crowding/too_large", "finite crowding distance exceeds the number of objectives",
                          {"costs": snap, "got": got, "m": m})
            return
    for d in range(m):
        col = [c[d] for c in snap]
        lo, hi = min(col), max(col)
        if not any(got[i] == math.inf for i in range(n) if col[i] == lo) or \
                not any(got[i] == math.inf for i in range(n) if col[i] == hi):
            ctx.violation("crowding/extreme_not_inf", "no holder of an objective's extreme value is infinite",
                          {"costs": snap, "got": got, "objective": d})
            return
    if not oracles.has_ties(snap):
        ctx.count("crowding_exact_checks")
        exp = oracles.crowding(snap)
        for i in range(n):
            if not oracles.close(got[i], exp[i], 1e-9, 1e-12):
                ctx.violation("crowding/formula/" + tag, "interior crowding distance differs from sum of normalised "
                              "neighbour gaps", {"costs": snap, "got": got, "expected": exp, "index": i})
                return


# ------------------------------------------------------------------ truncate
def judge_truncate(ctx, pop, snap, k, result, tag):
    """pop: input list (objects), snap: per input object (vector tuple, costs, front, crowding)"""
    ctx.count("truncate_calls")
    ids = {id(o): s for o, s in zip(pop, snap)}
    vecs = [s[0] for s in snap]
    distinct = len(set(vecs))
    wit = lambda: {"k": k, "input": [{"vector": s[0], "costs": s[1], "front": s[2], "cd": s[3]} for s in snap][:40],
                   "result_vectors": [tuple(o.vector) for o in result][:40]}
    for o in result:
        if id(o) not in ids:
            ctx.violation("truncate/not_subset", "returned individual is not one of the input individuals", wit())
            return
    rv = [ids[id(o)][0] for o in result]
    if len(set(rv)) != len(rv):
        ctx.violation("truncate/duplicate_design", "a design is returned more than once", wit())
        return
    if len(result) != min(k, distinct):
        ctx.violation("truncate/size", "returned %d individuals, expected min(k=%d, distinct designs=%d)"
                      % (len(result), k, distinct), wit())
        return
    if k < len(pop) or distinct < len(pop):
        ctx.nontrivial(("tr", k, tuple(vecs), tuple(s[1] for s in snap)))
    kept_vecs = set(rv)
    discarded = [s for s in snap if s[0] not in kept_vecs]
    if not discarded or not result:
        return
    ctx.count("truncate_cut_checks")
    worst_kept = max(ids[id(o)][2] for o in result)
    best_disc = min(s[2] for s in discarded)
    if worst_kept > best_disc:
        ctx.violation("truncate/rank_order", "a kept individual has a worse front number (%r) than a discarded design (%r)"
                      % (worst_kept, best_disc), wit())
        return
    if distinct == len(pop):
        # all designs distinct: inside the front that is cut, crowding decides
        cut = worst_kept
        kept_cd = [ids[id(o)][3] for o in result if ids[id(o)][2] == cut]
        disc_cd = [s[3] for s in discarded if s[2] == cut]
        if kept_cd and disc_cd:
            ctx.count("truncate_crowding_checks")
            if max(disc_cd) > min(kept_cd):
                ctx.violation("truncate/crowding_order", "in the cut front a discarded member has a larger crowding "
                              "distance than a kept one", wit())


def ranked_population(r, sel, size, m, n, dup_rate):
    costs = gen.population_costs(r, size, m)
    style = r.choice(["rand", "grid", "collide"])
    pop = []
    used = set()
    for c in costs:
        if pop and r.random() < dup_rate:
            src = r.choice(pop)
            pop.append(_ind(src.vector, src.costs_signed))
            continue
        v = None
        for _attempt in range(20):
            if style == "rand":
                v = [r.uniform(-5, 5) for _ in range(n)]
            elif style == "grid":
                v = [float(r.randint(-3, 3)) for _ in range(n)]
            elif n > 1:  # hash(-1.0) == hash(-2.0): colliding tuple hashes with equal last coordinate
                v = [r.choice([-1.0, -2.0]) for _ in range(n - 1)] + [float(r.randint(0, 2))]
            else:
                v = [float(r.randint(-8, 8))]
            if tuple(v) not in used:
                break
        if tuple(v) in used:
            v = [r.uniform(-5, 5) for _ in range(n)]
        used.add(tuple(v))
        pop.append(_ind(v, c))
    # identical designs must carry identical costs
    sel.fast_nondominated_sorting(pop)
    return pop


def snapshot(pop):
    return [(tuple(o.vector), tuple(o.costs_signed), o.features["front_number"], o.features["crowding_distance"])
            for o in pop]


# ------------------------------------------------------------------ tournament
def judge_select(ctx, pop, result, drawn, tag):
    ctx.count("select_calls")
    if not any(result is o for o in pop):
        ctx.violation("select/not_member", "tournament returned an object that is not in the population", None)
        return
    cand = None
    if len(pop) == 2:
        cand = list(pop)
    elif drawn is not None and len(drawn) == 2 and all(any(d is o for o in pop) for d in drawn):
        cand = list(drawn)
        ctx.count("select_pairs_tapped")
    if cand is None:
        return
    ctx.count("select_pair_verdicts")
    a, b = cand
    fa, fb = a.features["front_number"], b.features["front_number"]
    wit = lambda: {"a": {"front": fa, "costs": a.costs_signed}, "b": {"front": fb, "costs": b.costs_signed},
                   "returned": "a" if result is a else "b" if result is b else "other"}
    if not (result is a or result is b):
        ctx.violation("select/not_a_candidate", "returned individual is neither of the two drawn candidates", wit())
        return
    if fa != fb:
        ctx.nontrivial(("sel", fa, fb, tuple(a.costs_signed), tuple(b.costs_signed)))
        better = a if fa < fb else b
        if result is not better:
            ctx.violation("select/worse_front", "tournament returned the candidate with the worse front number", wit())
        return
    d = oracles.odom(a.costs_signed, b.costs_signed)
    if d != 0:
        ctx.nontrivial(("sel", fa, fb, tuple(a.costs_signed), tuple(b.costs_signed)))
        better = a if d == 1 else b
        if result is not better:
            ctx.violation("select/dominated", "at equal front number the dominated candidate was returned", wit())


def cases(ctx):
    for i in range(ctx.pick(1500, 960000)):
        yield "crowding", {"seed": ctx.subseed("cd", i)}
    for i in range(ctx.pick(1000, 600000)):
        yield "truncate", {"seed": ctx.subseed("tr", i), "max_size": ctx.pick(40, 80)}
    for i in range(ctx.pick(750, 480000)):
        yield "tournament", {"seed": ctx.subseed("to", i)}
    for i in range(ctx.pick(90, 36000)):
        yield "insitu", {"seed": ctx.subseed("is", i),
                         "algo": ["nsga2", "epsmoea", "nsga2", "smpso", "psoga", "omopso"][i % 6]}


def run_case(ctx, name, params):
    from artap import operators
    NUMPY_COSTS[0] = (params.get("seed", 0) % 3 == 0)
    if NUMPY_COSTS[0]:
        ctx.count("cases_with_numpy_typed_costs")
    if name == "crowding":
        r = ctx.rng("cd", params["seed"])
        n = r.choice([1, 2, 3, 3, 4, 5, 8, 13, 30])
        m = r.randint(1, 4)
        kind = r.choice(["distinct", "distinct", "ties", "zero_range", "antichain", "all_equal"])
        if kind == "distinct":
            cols = [r.sample([x / 8.0 for x in range(-400, 400)], n) for _ in range(m)]
            costs = [[cols[d][i] for d in range(m)] + [0] for i in range(n)]
        elif kind == "antichain" and m >= 2:
            xs = sorted(r.sample(range(1000), n))
            costs = [[float(x), float(1000 - x)] + [r.uniform(0, 1) for _ in range(m - 2)] + [0] for x in xs]
            r.shuffle(costs)
        elif kind == "all_equal":      # several designs with identical costs: every objective has zero range
            base = gen.cost_vector(r, m, "grid")
            costs = [list(base) + [0] for _ in range(n)]
        elif kind == "zero_range":
            costs = [[r.uniform(0, 1) for _ in range(m)] + [0] for _ in range(n)]
            z = r.randrange(m)
            for c in costs:
                c[z] = 0.25
        else:
            costs = [gen.cost_vector(r, m, "grid") + [0] for _ in range(n)]
        if r.random() < 0.5:
            # objectives on very different scales (exact: powers of two): the distances are ratios, a range of 1e-300 or of
            # 1e+270 normalises like any other, and only a range of exactly zero contributes nothing
            ks = [r.choice([0, -60, -200, -1000, -1040, -1060, 60, 500, 900, r.randint(-1060, 900)]) for _ in range(m)]   # down into the subnormals
            costs = [[c[d] * 2.0 ** ks[d] for d in range(m)] + [c[-1]] for c in costs]
            ctx.count("crowding_fronts_with_rescaled_objectives")
        front = [_ind([float(i)], c) for i, c in enumerate(costs)]
        members = list(front)
        snap = [list(c) for c in costs]
        try:
            operators.crowding_distance(front)
        except Exception as e:
            ctx.violation("crowding/exception", "crowding_distance raised %r" % e, {"costs": costs})
            return
        judge_crowding(ctx, snap, members, "direct")
        ctx.count("cases")
        ctx.sample({"kind": kind, "costs": costs[:5], "crowding": [i.features["crowding_distance"] for i in members][:5]},
                   "crowding")
    elif name == "truncate":
        r = ctx.rng("tr", params["seed"])
        from .c02 import _selector as _any_selector
        sel = _any_selector(ctx, ("c03", params["seed"]))     # ranks do not depend on the selector's tournament options
        size = r.randint(1, params["max_size"])
        m = r.randint(1, 4)
        n = r.randint(1, 4)
        pop = ranked_population(r, sel, size, m, n, r.choice([0.0, 0.0, 0.2, 0.5]))
        snap = snapshot(pop)
        for k in sorted({1, r.randint(1, 2 * size), r.randint(1, size), size, max(1, size - 1)}):
            order = list(range(len(pop)))
            r.shuffle(order)
            p2 = [pop[i] for i in order]
            s2 = [snap[i] for i in order]
            # "population: iterable" -- a list, a tuple, or something that can be walked only once
            kind_ = r.choice(["list", "list", "tuple", "iterator", "generator"])
            arg_ = p2 if kind_ == "list" else tuple(p2) if kind_ == "tuple" else iter(p2) if kind_ == "iterator" else (o_ for o_ in p2)
            ctx.count("truncations_of_a_" + kind_)
            try:
                res = operators.nondominated_truncate(arg_, k)
            except Exception as e:
                ctx.violation("truncate/exception", "nondominated_truncate raised %r for a %s" % (e, kind_), {"k": k})
                return
            judge_truncate(ctx, p2, s2, k, res, "direct")
            ctx.count("cases")
        # second generation on the same objects: some members are moved IN PLACE onto another member's design (what clipping to a
        # bound does to swarm particles), the population is ranked and truncated again -- a repeated design must still go once
        if len(pop) >= 2:
            movers = r.sample(pop, max(1, len(pop) // 4))
            for mv in movers:
                tgt = r.choice(pop)
                if tgt is mv:
                    continue
                for i_ in range(len(mv.vector)):
                    mv.vector[i_] = tgt.vector[i_]
                mv.costs_signed = list(tgt.costs_signed)
                mv.costs = list(tgt.costs)
            sel.fast_nondominated_sorting(pop)
            snap2 = snapshot(pop)
            for k in sorted({r.randint(1, 2 * size), size}):
                try:
                    res = operators.nondominated_truncate(list(pop), k)
                except Exception as e:
                    ctx.violation("truncate/exception", "nondominated_truncate raised %r" % e, {"k": k})
                    return
                judge_truncate(ctx, pop, snap2, k, res, "after_in_place_moves")
                ctx.count("truncate_after_in_place_moves")
                ctx.count("cases")
        ctx.sample({"size": size, "m": m, "n": n, "first": [{"vector": s[0], "costs": s[1], "front": s[2], "cd": s[3]}
                                                              for s in snap[:3]]}, "truncate")
    elif name == "tournament":
        r = ctx.rng("to", params["seed"])
        rr = vrng.SeededRandom(params["seed"])
        vrng.install(rr)
        sel = _selector()
        size = r.choice([1, 2, 2, 2, 3, 5, 10])
        m = r.randint(1, 3)
        pop = ranked_population(r, sel, size, m, 2, 0.1)
        for _ in range(10):
            before = getattr(rr, "samples_drawn", 0)
            try:
                res = sel.select(pop)
            except Exception as e:
                ctx.violation("select/exception", "select raised %r" % e, {"size": size})
                return
            drawn = rr.last_sample if getattr(rr, "samples_drawn", 0) == before + 1 else None
            judge_select(ctx, pop, res, drawn, "direct")
            ctx.count("cases")
        # the same design objects are evaluated again in place (swarm particles, noisy objectives, a robustness re-evaluation): the
        # same selector object must follow the costs and labels the candidates carry NOW -- first with the labels of the earlier
        # ranking still on them (equal labels may then hide a dominated candidate), then after ranking again
        if len(pop) >= 2:
            for phase in ("stale_labels", "ranked_again"):
                if phase == "stale_labels":
                    cs = [list(o.costs_signed) for o in pop]
                    cs = cs[1:] + cs[:1] if r.random() < 0.5 else cs[::-1]
                    for o, c in zip(pop, cs):
                        o.costs_signed = c
                        o.costs = list(c[:-1])
                else:
                    sel.fast_nondominated_sorting(pop)
                for _ in range(6):
                    before = getattr(rr, "samples_drawn", 0)
                    try:
                        res = sel.select(pop)
                    except Exception as e:
                        ctx.violation("select/exception", "select raised %r" % e, {"size": size, "phase": phase})
                        return
                    drawn = rr.last_sample if getattr(rr, "samples_drawn", 0) == before + 1 else None
                    judge_select(ctx, pop, res, drawn, "re_evaluated_" + phase)
                    ctx.count("select_calls_after_in_place_re_evaluation")
    elif name == "insitu":
        r = ctx.rng("is", params["seed"])
        setup = insitu.random_setup(r, algo=params["algo"], max_N=14, max_G=6,
                                    families=["unit", "mixed", "neg", "asym"])
        pt = Patches()
        from artap.operators import TournamentSelector

        def mk_cd(orig):
            def crowding_distance(front, *a, **kw):
                members = list(front)
                snap = [list(i.costs_signed) for i in members]
                res = orig(front, *a, **kw)
                if len({id(i.features) for i in members}) < len(members):
                    # PSOGA lets two particles share one features dict: no per-individual value exists
                    ctx.count("insitu_crowding_calls_shared_features_skipped")
                else:
                    judge_crowding(ctx, snap, members, "insitu")
                    ctx.count("insitu_crowding_calls")
                return res
            return crowding_distance

        def mk_tr(orig):
            def nondominated_truncate(population, size, *a, **kw):
                pop = list(population)
                snap = snapshot(pop)
                res = orig(population, size, *a, **kw)
                judge_truncate(ctx, pop, snap, size, res, "insitu")
                ctx.count("insitu_truncate_calls")
                return res
            return nondominated_truncate

        def mk_sel(orig):
            def select(self, individuals, *a, **kw):
                rr = random.random.__self__
                before = getattr(rr, "samples_drawn", 0)
                res = orig(self, individuals, *a, **kw)
                drawn = rr.last_sample if getattr(rr, "samples_drawn", 0) == before + 1 else None
                judge_select(ctx, list(individuals), res, drawn, "insitu")
                ctx.count("insitu_select_calls")
                return res
            return select
        pt.wrap_attr(operators, "crowding_distance", mk_cd, scan=True)
        pt.wrap_attr(operators, "nondominated_truncate", mk_tr, scan=True)
        pt.wrap_attr(TournamentSelector, "select", mk_sel)
        try:
            p, a, err = insitu.run_one(setup)
        finally:
            pt.restore()
        ctx.count("insitu_runs")
        if err is not None:
            ctx.count("insitu_runs_aborted")
        ctx.count("cases")


def requirements(ctx):
    ctx.require("crowding_exact_checks", 50)
    ctx.require("truncate_cut_checks", 100)
    ctx.require("truncate_crowding_checks", 20)
    ctx.require("select_pair_verdicts", 200)
    # (select_pairs_tapped is informational: an implementation that does not draw its pair with random.sample is judged on the
    #  size-2 populations, where the two candidates are known)
    ctx.require("select_calls_after_in_place_re_evaluation", 200)
    ctx.require("insitu_truncate_calls", 5)
    ctx.require("insitu_crowding_calls", 20)
    ctx.require("insitu_select_calls", 50)
