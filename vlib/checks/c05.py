"""C05 — each design is evaluated exactly once and stored costs belong to its vector."""
import collections
import math

import numpy as np

from .. import gen, hooks, oracles, rng as vrng
from ..hooks import Patches

PID = "C05"
LEVEL = "exploration"
RULE = ("mixed batches (EMPTY/EVALUATED, repeated objects, the same batch evaluated 1..3 times) through Algorithm.evaluate with 1..4 "
        "goals, random min/max, stored precision 0..10 and constraint values at exactly 0 and +-tiny; SweepAlgorithm with "
        "Custom/Random/LHS/Halton/Uniform generators (generator output tapped), the same algorithm object swept a second time after its generator was given other designs; ScipyOpt and NLopt with the scalar bridge tapped. "
        "Oracle: call-count model on the harness objective's call log, sign/rounding/marker rules. non-trivial = batch mixing "
        "evaluated and new designs, or a maximised/rounded cost, or a sweep/optimiser run; distinct by the case data")
ASSUMPTIONS = ["designs left IN_PROGRESS/FAILED by an earlier exception are out of scope (statement speaks of evaluated vs not-yet-evaluated)",
               "rounding rule: |cs - s*c| <= 0.5*10^-p + 4 ulp"]
SHARDS = {"quick": 1, "thorough": 16}
WATCHDOG = {"quick": 900, "thorough": 3000}

SCIPY = ["Nelder-Mead", "Powell", "COBYLA", "L-BFGS-B", "BFGS", "CG", "TNC", "SLSQP"]


def cases(ctx):
    for i in range(ctx.pick(500, 100000)):
        yield "batch", {"seed": ctx.subseed("b", i)}
    for i in range(ctx.pick(60, 6000)):
        yield "growing_batch", {"seed": ctx.subseed("gb", i)}
    for i in range(ctx.pick(120, 20000)):
        yield "sweep", {"seed": ctx.subseed("s", i), "gen": ["custom", "random", "lhs", "halton", "uniform", "fullfact", "pb", "bb"][i % 8]}
    for i in range(ctx.pick(48, 6400)):
        yield "scipy", {"seed": ctx.subseed("sp", i), "method": SCIPY[i % len(SCIPY)]}
    for i in range(ctx.pick(48, 6400)):
        yield "nlopt", {"seed": ctx.subseed("nl", i), "algo": i % 8}


def objective(r, m):
    ws = [[r.uniform(-3, 3) for _ in range(8)] for _ in range(m)]
    scale = r.choice([1.0, 1.0, 1e-5, 1e3, 123456.789])

    # what user objectives really return: a list of Python floats, numpy scalars, a numpy array, a tuple
    shape = r.choice(["list", "list", "np_scalars", "ndarray", "tuple"])

    def fn(x):
        out = [scale * (sum(w * v for w, v in zip(ws[j], x)) + 0.1234567891234 * j + sum(v * v for v in x)) for j in range(m)]
        if shape == "np_scalars":
            return [np.float64(v) for v in out]
        if shape == "ndarray":
            return np.array(out, dtype=float)
        if shape == "tuple":
            return tuple(out)
        return out
    fn.shape = shape
    return fn


def check_fields(ctx, ind, call, signs, m, tag):
    """post-conditions on one freshly evaluated design"""
    from artap.individual import Individual
    ctx.count("field_checks")
    wit = lambda: {"vector": ind.vector, "costs": ind.costs, "costs_signed": ind.costs_signed, "objective_returned": call.result,
                   "objective_called_with": call.vector, "signs": signs, "precision": ind.features.get("precision")}
    if ind.state != Individual.State.EVALUATED:
        ctx.violation("fields/state", "design not marked evaluated after evaluation (%r)" % ind.state, wit())
        return False
    if list(call.vector) != list(ind.vector):
        ctx.violation("fields/vector_mismatch", "objective was called with a vector other than the design's stored vector", wit())
        return False
    if list(ind.costs) != list(call.result) or len(ind.costs) != m:
        ctx.violation("fields/costs", "stored costs differ from what the objective returned for the stored vector", wit())
        return False
    cs = ind.costs_signed
    if len(cs) != m + 1:
        ctx.violation("fields/signed_length", "costs_signed has %d entries for %d objectives (+1 marker)" % (len(cs), m), wit())
        return False
    p = ind.features["precision"]
    for j in range(m):
        c = float(ind.costs[j])
        s = signs[j]
        v = float(cs[j])
        tol = 0.5 * 10.0 ** (-p) + 4 * math.ulp(abs(c))
        if abs(v - s * c) > tol:
            key = "fields/signed_value/" + ("sign" if abs(v + s * c) <= tol and c != 0 else "rounding")
            ctx.violation(key, "signed cost %r is not %+d * cost %r rounded to %d decimals" % (v, s, c, p), wit())
            return False
        if abs(c) < 1e6:
            t = v * 10.0 ** p
            if abs(t - round(t)) > 1e-3 + 8 * math.ulp(abs(t)):
                ctx.violation("fields/signed_value/not_rounded", "signed cost %r is not rounded to the stored precision %d" % (v, p), wit())
                return False
    return True


def _batch_passes(ctx, r, p, alg, batch, procs, signs, m, size, cons, cons_mode, crit, params):
    from artap.individual import Individual
    from artap.operators import ParetoDominance
    passes = r.randint(1, 3)
    mixed = False
    for ps in range(passes):
        uniq = list({id(b): b for b in batch}.values())
        fresh = [b for b in uniq if b.state != Individual.State.EVALUATED]
        done = [(b, b.costs, list(b.costs), list(b.costs_signed), list(b.vector)) for b in uniq
                if b.state == Individual.State.EVALUATED]
        if fresh and done:
            mixed = True
        n0 = len(p.calls)
        try:
            alg.evaluate(batch)
        except Exception as e:
            ctx.violation("batch/exception", "Algorithm.evaluate raised %r" % e, {"size": size})
            return
        new_calls = p.calls[n0:]
        ctx.count("batch_evaluations")
        wit = lambda: {"batch": size, "fresh": len(fresh), "already_evaluated": len(done), "objective_calls": len(new_calls), "pass": ps}
        if len(new_calls) != len(fresh):
            ctx.violation("calls/count/" + ("evaluated_design_re-evaluated" if len(new_calls) > len(fresh) else "fresh_design_skipped"),
                          "objective called %d times for %d not-yet-evaluated designs" % (len(new_calls), len(fresh)), wit())
            return
        if procs == 1:
            pairs_ = list(zip(fresh, new_calls))      # serial evaluation keeps batch order
        else:
            ctx.count("parallel_batch_evaluations")
            by_id = {}
            for c in new_calls:
                by_id.setdefault(c.ind_id, []).append(c)
            if any(len(v) != 1 for v in by_id.values()) or set(by_id) != {b.id for b in fresh}:
                ctx.violation("calls/per_design", "objective not called exactly once per not-yet-evaluated design "
                              "(parallel evaluation)", wit())
                return
            pairs_ = [(b, by_id[b.id][0]) for b in fresh]
        for b, c in pairs_:
            if not check_fields(ctx, b, c, signs, m, "batch"):
                return
        for b, obj, costs, cs, vec in done:
            if b.costs is not obj or list(b.costs) != costs or list(b.costs_signed) != cs or list(b.vector) != vec:
                ctx.violation("calls/evaluated_design_touched", "an already evaluated design was modified", wit())
                return
    # marker semantics through the real comparator
    if cons is not None:
        uniq = list({id(b): b for b in batch}.values())
        feas = [b for b in uniq if all(g < 0 for g in cons(b.vector))]
        viol = [b for b in uniq if not all(g < 0 for g in cons(b.vector))]
        cmpr = ParetoDominance()
        for a in feas[:6]:
            for b in viol[:6]:
                ctx.count("marker_rank_checks")
                if cmpr.compare(a.costs_signed, b.costs_signed) != 1:
                    ctx.violation("marker/feasible_not_first", "a design satisfying all constraints (g<0) is not ranked ahead "
                                  "of a violating one", {"feasible": {"g": cons(a.vector), "cs": a.costs_signed},
                                                         "violating": {"g": cons(b.vector), "cs": b.costs_signed}})
                    return
        for grp in (feas, viol):
            if len({oracles.marker(b.costs_signed[-1]) for b in grp}) > 1:
                ctx.violation("marker/unequal_within_class", "designs of equal feasibility carry different markers",
                              {"markers": [b.costs_signed[-1] for b in grp]})
                return
    if mixed or -1 in signs or cons is not None:
        ctx.nontrivial(("b", params["seed"]))
    ctx.count("cases")
    ctx.sample({"batch": size, "objectives": m, "criteria": crit, "constraints": cons_mode, "passes": passes,
                "first": {"vector": batch[0].vector, "costs": batch[0].costs, "costs_signed": batch[0].costs_signed}}, "batch")


def run_case(ctx, name, params):
    from artap.individual import Individual
    from artap.algorithm import DummyAlgorithm
    from artap.operators import ParetoDominance
    r = ctx.rng(name, params["seed"])
    if name == "batch":
        n = r.randint(1, 5)
        m = r.randint(1, 4)
        crit = [r.choice(["minimize", "maximize"]) for _ in range(m)]
        signs = [1 if c == "minimize" else -1 for c in crit]
        cons_mode = r.choice([None, None, "one", "two", "several"])
        cons = None
        if cons_mode == "one":
            cons = lambda x: [x[0]]
        elif cons_mode == "two":
            cons = lambda x: [x[0], x[-1] - 0.5]
        elif cons_mode == "several":
            # 2..4 constraint values per design in every position: satisfied (negative, -inf), exactly zero, violated, and
            # values that are not comparable at all (NaN is not < 0: such a design does not satisfy g<0); Python floats,
            # ints and numpy scalars
            import numpy as _np
            k_ = r.randint(2, 4)
            pool_ = [-1.0, -2, -math.inf, -1e-300, _np.float64(-0.5), 0.0, 5e-324, 3, math.inf, math.nan, _np.float64("nan"), -1.0, -1.0]
            tab_ = [[r.choice(pool_) for _ in range(k_)] for _ in range(7)]
            for row_ in tab_[:3]:
                row_[:] = [r.choice([-1.0, -2, -math.inf, _np.float64(-0.5)]) for _ in range(k_)]      # rows that satisfy everything
            if r.random() < 0.5:
                row_ = tab_[3]
                row_[:] = [-1.0] * k_
                row_[r.randrange(1, k_)] = r.choice([math.nan, 0.0, 5e-324])         # a single offender, not in the first slot

            def cons(x, tab_=tab_):
                return list(tab_[int(abs(x[0]) * 1e6) % len(tab_)])
        procs = r.choice([1, 1, 1, 2, 3])
        S = None
        eg = None
        if procs > 1:
            # worker threads are parked at objective entry and released in a seeded order, so that evaluations of different
            # designs really overlap (one thread computes constraints while another is inside the objective)
            from .. import sched
            S = sched.Scheduler(params["seed"], r.choice(sched.Scheduler.POLICIES), expected=procs)
            eg = lambda c: S.gate("obj_enter")
        p = hooks.make_problem(n=n, m=m, criteria=crit, fn=objective(r, m), cons=cons, bounds=[[-1.0, 1.0]] * n, entry_gate=eg)
        alg = DummyAlgorithm(p)
        alg.options["max_processes"] = procs
        size = r.randint(1, 30)
        batch = []
        for _ in range(size):
            if batch and procs == 1 and r.random() < 0.1:
                batch.append(r.choice(batch))        # the same object twice in one batch
                continue
            vec = [r.uniform(-1, 1) for _ in range(n)]
            if cons is not None and cons_mode != "several":
                vec[0] = r.choice([-1.0, -1e-300, -5e-324, 0.0, 5e-324, 1e-300, 1.0, r.uniform(-1, 1)])
            ind = Individual(vec)
            ind.features["precision"] = r.choice([7, 7, 0, 1, 3, 10])
            batch.append(ind)
        # pre-evaluate a random subset through the real path, so that they are genuinely EVALUATED
        pre = [b for b in batch if r.random() < 0.35]
        try:
            if pre:
                alg.evaluate(pre)
            ok_ = _batch_passes(ctx, r, p, alg, batch, procs, signs, m, size, cons, cons_mode, crit, params)
        finally:
            if S is not None:
                S.shutdown()
                ctx.count("scheduler_grants", S.grants)
        return
    elif name == "growing_batch":
        # an objective that refines adaptively: while a (serial) batch is being evaluated it appends further designs to that very
        # batch; "a batch" is what the list holds when evaluate() returns -- every member evaluated, each exactly once
        n = r.randint(1, 3)
        m = r.randint(1, 2)
        fn = objective(r, m)
        batch = []
        budget = [r.randint(1, 4)]

        def on_call(vec):
            if budget[0] > 0 and r.random() < 0.5:
                budget[0] -= 1
                batch.append(Individual([r.uniform(-1, 1) for _ in range(n)]))
        p = hooks.make_problem(n=n, m=m, fn=fn, bounds=[[-1.0, 1.0]] * n, on_call=on_call)
        alg = DummyAlgorithm(p)
        for _ in range(r.randint(1, 6)):
            batch.append(Individual([r.uniform(-1, 1) for _ in range(n)]))
        first = len(batch)
        try:
            alg.evaluate(batch)
        except Exception as e:
            ctx.violation("batch/exception", "Algorithm.evaluate raised %r for a batch that grows during evaluation" % e, {"size": first})
            return
        ctx.count("growing_batches")
        by_id = collections.Counter(c.ind_id for c in p.calls)
        wit = lambda: {"designs_at_start": first, "designs_at_end": len(batch), "objective_calls": len(p.calls),
                       "states": [str(b.state) for b in batch]}
        for b in batch:
            if b.state != Individual.State.EVALUATED or by_id.get(b.id, 0) != 1 or [float(v) for v in b.costs] != [float(v) for v in fn(b.vector)]:
                ctx.violation("calls/growing_batch", "a design appended to the batch while it was being evaluated was not evaluated exactly once "
                              "(or carries foreign costs)", wit())
                return
        if len(batch) > first:
            ctx.nontrivial(("gb", params["seed"]))
        ctx.count("cases")
    elif name == "sweep":
        from artap import operators
        from artap.algorithm_sweep import SweepAlgorithm
        n = r.randint(1, 4)
        m = r.randint(1, 3)
        crit = [r.choice(["minimize", "maximize"]) for _ in range(m)]
        signs = [1 if c == "minimize" else -1 for c in crit]
        bxs = gen.boxes(r, n, r.choice(["unit", "mixed", "neg", "asym"]))
        p = hooks.make_problem(n=n, m=m, criteria=crit, fn=objective(r, m), bounds=bxs)
        vrng.install(vrng.SeededRandom(params["seed"]))
        vrng.install_numpy(params["seed"] % 2 ** 31)
        g = params["gen"]
        N = r.randint(1, 25)
        if g == "custom" and r.random() < 0.2:
            N = 0                      # an empty sweep is a sweep: nothing is evaluated
            ctx.count("empty_sweeps")
        # designs the user has put on the problem for later (not evaluated, not produced by the generator): a sweep leaves them alone
        prep = []
        if r.random() < 0.35:
            for _ in range(r.randint(1, 4)):
                pi_ = Individual([r.uniform(lb, ub) for lb, ub in bxs])
                prep.append((pi_, list(pi_.vector)))
                p.individuals.append(pi_)
            ctx.count("sweeps_on_a_problem_holding_prepared_designs")
        if g == "custom":
            gobj = operators.CustomGenerator(p.parameters)
            vs = [[r.uniform(lb, ub) for lb, ub in bxs] for _ in range(N)]
            if N > 2:
                vs[-1] = list(vs[0])       # a repeated design is still a design of the generator
            gobj.init(vs)
        elif g == "random":
            gobj = operators.RandomGenerator(p.parameters)
            gobj.init(N)
        elif g == "lhs":
            gobj = operators.LHSGenerator(p.parameters)
            gobj.init(N)
        elif g == "halton":
            gobj = operators.HaltonGenerator(p.parameters)
            gobj.init(N)
        elif g == "fullfact":
            gobj = operators.FullFactorGenerator(p.parameters)
            gobj.init(r.random() < 0.5)
        elif g == "pb":
            gobj = operators.PlackettBurmanGenerator(p.parameters)
        elif g == "bb" and n >= 3:
            gobj = operators.BoxBehnkenGenerator(p.parameters)
        else:
            gobj = operators.UniformGenerator(p.parameters)
            gobj.init(r.randint(2, 4))
        produced = []
        real_generate = gobj.generate

        def tapped():
            out = real_generate()
            produced.append([list(map(float, v)) for v in out])
            return out
        gobj.generate = tapped
        alg = SweepAlgorithm(p, generator=gobj)
        try:
            alg.run()
        except Exception as e:
            ctx.violation("sweep/exception", "SweepAlgorithm.run raised %r" % e, {"generator": g})
            return
        finally:
            vrng.uninstall_numpy()
        ctx.count("sweep_runs")
        if len(produced) != 1:
            ctx.violation("sweep/generate_calls", "generator consulted %d times" % len(produced), {"generator": g})
            return
        exp = produced[0]
        for pi_, v0_ in prep:
            if pi_.state != Individual.State.EMPTY or list(pi_.costs) or list(pi_.vector) != v0_:
                ctx.violation("sweep/foreign_design_touched", "a sweep evaluated or modified a design of the problem that its generator did not "
                              "produce", {"generator": g, "designs_of_the_generator": len(exp), "state": str(pi_.state), "costs": list(pi_.costs)})
                return
        got = [list(map(float, i.vector)) for i in p.individuals[len(prep):]]
        called = [list(map(float, c.vector)) for c in p.calls]
        wit = lambda: {"generator": g, "designs": exp[:5], "recorded": got[:5], "called": called[:5]}
        if got != exp:
            ctx.violation("sweep/recorded_designs", "recorded individuals are not exactly the generator's designs in order", wit())
            return
        if called != exp:
            ctx.violation("sweep/evaluated_designs", "the objective was not called exactly once per generator design, in order", wit())
            return
        for ind, c in zip(p.individuals[len(prep):], p.calls):
            if not check_fields(ctx, ind, c, signs, m, "sweep"):
                return
        if r.random() < 0.5:
            # the same algorithm object sweeps a second time after its generator was given other designs (a refined table, another
            # number of samples): the second sweep evaluates exactly what the generator produces NOW, once each, in order
            if g == "custom":
                gobj.init([[r.uniform(lb, ub) for lb, ub in bxs] for _ in range(r.randint(1, 12))])
            elif g in ("random", "lhs", "halton"):
                gobj.init(r.randint(1, 25))
            n_ind, n_calls = len(p.individuals), len(p.calls)
            vrng.install_numpy((params["seed"] + 1) % 2 ** 31)
            try:
                alg.run()
            except Exception as e:
                ctx.violation("sweep/second_run/exception", "the second run of a SweepAlgorithm object raised %r" % e, {"generator": g})
                return
            finally:
                vrng.uninstall_numpy()
            ctx.count("second_sweeps_of_one_algorithm_object")
            if len(produced) == 2:
                exp2 = produced[1]
            elif len(produced) == 1 and g not in ("random", "lhs"):
                # the generator was not consulted again (the statement does not say it has to be): what it produces now is known for the
                # custom table and for the deterministic generators
                exp2 = [list(map(float, v)) for v in real_generate()]
                ctx.count("second_sweeps_judged_without_a_generate_call")
            elif len(produced) == 1:
                ctx.count("second_sweeps_not_judged_random_generator_not_consulted")
                exp2 = None
            else:
                ctx.violation("sweep/second_run/generate_calls", "generator consulted %d times in the second sweep" % (len(produced) - 1),
                              {"generator": g})
                return
            if exp2 is not None:
                got2 = [list(map(float, i.vector)) for i in p.individuals[n_ind:]]
                called2 = [list(map(float, c.vector)) for c in p.calls[n_calls:]]
                wit2 = lambda: {"generator": g, "designs_now": exp2[:5], "recorded": got2[:5], "called": called2[:5], "first_sweep": exp[:5]}
                if got2 != exp2:
                    ctx.violation("sweep/second_run/recorded_designs", "the second sweep did not record exactly the designs its generator "
                                  "produces now, in order", wit2())
                    return
                if called2 != exp2:
                    ctx.violation("sweep/second_run/evaluated_designs", "the second sweep did not call the objective exactly once per design "
                                  "its generator produces now, in order", wit2())
                    return
                for ind, c in zip(p.individuals[n_ind:], p.calls[n_calls:]):
                    if not check_fields(ctx, ind, c, signs, m, "sweep"):
                        return
        ctx.nontrivial(("s", g, params["seed"]))
        ctx.count("cases")
        ctx.sample({"generator": g, "designs": len(exp), "first": exp[0] if exp else None}, "sweep")
    elif name in ("scipy", "nlopt"):
        from artap.operators import Evaluator
        n = r.randint(1, 3)
        maximize = r.random() < 0.5
        crit = ["maximize" if maximize else "minimize"]
        s = -1 if maximize else 1
        centre = [r.uniform(-1, 1) for _ in range(n)]
        off = r.choice([0.0, 0.123456789123, 1000.0])

        def fn(x):
            v = sum((a - c) ** 2 for a, c in zip(x, centre)) + off
            return [-v if maximize else v]
        bxs = [[-2.0, 2.0]] * n
        prm = [{"name": "x%d" % i, "bounds": [-2.0, 2.0], "initial_value": r.uniform(-1.5, 1.5)} for i in range(n)]
        p = hooks.make_problem(n=n, m=1, criteria=crit, fn=fn, params=prm)
        taps = []
        pt = Patches()

        def mk(orig):
            def evaluate_scalar(self, vector, *a, **kw):
                x = [float(v) for v in vector]
                ret = orig(self, vector, *a, **kw)
                taps.append((x, ret))
                return ret
            return evaluate_scalar
        pt.wrap_attr(Evaluator, "evaluate_scalar", mk)
        try:
            if name == "scipy":
                from artap.algorithm_scipy import ScipyOpt
                alg = ScipyOpt(p)
                alg.options["algorithm"] = params["method"]
                alg.options["n_iterations"] = r.randint(3, 25)
                alg.options["tol"] = 1e-8
                label = params["method"]
            else:
                from artap import algorithm_nlopt as an
                algs = [an.LN_BOBYQA, an.LN_COBYLA, an.LN_NELDERMEAD, an.LN_SBPLX, an.GN_DIRECT_L, an.GN_CRS2_LM,
                        an.LN_PRAXIS, an.GN_ISRES]
                alg = an.NLopt(p)
                alg.options["algorithm"] = algs[params["algo"] % len(algs)]
                alg.options["n_iterations"] = r.randint(3, 40)
                alg.options["verbose_level"] = 0
                label = "nlopt-%d" % alg.options["algorithm"]
            alg.run()
        except Exception as e:
            if type(e).__module__.split(".")[0] == "nlopt":
                ctx.count("runs_aborted_by_external_optimiser")     # RoundoffLimited etc.: the queries made so far are still judged
            else:
                ctx.violation("%s/exception" % name, "%s run raised %r" % (name, e), {"method": params})
                return
        finally:
            pt.restore()
        ctx.count(name + "_runs")
        wit = lambda extra=None: {"optimiser": label, "maximize": maximize, "queries": len(taps), "recorded": len(p.individuals),
                                  "objective_calls": len(p.calls), "extra": extra}
        if not taps:
            ctx.count(name + "_runs_without_queries")
            return
        if len(p.individuals) != len(taps) or len(p.calls) != len(taps):
            ctx.violation("scalar/record_count", "%d optimiser queries, %d recorded individuals, %d objective calls"
                          % (len(taps), len(p.individuals), len(p.calls)), wit())
            return
        for (x, ret), ind, c in zip(taps, p.individuals, p.calls):
            ctx.count("scalar_queries_checked")
            true = float(c.result[0])      # what the objective returned for exactly this vector
            if not oracles.close(true, fn(x)[0], 1e-12, 1e-12):
                raise AssertionError("harness: logged objective value is not f(x)")
            if [float(v) for v in ind.vector] != x or list(c.vector) != x:
                ctx.violation("scalar/recorded_vector", "query point is not recorded with its own vector",
                              wit({"x": x, "recorded": ind.vector}))
                return
            if len(ind.costs) != 1 or float(ind.costs[0]) != true:
                ctx.violation("scalar/true_cost", "recorded cost %r is not the true cost %r of the queried point" % (ind.costs, true),
                              wit({"x": x}))
                return
            exp = s * float(np.round(true, 7))
            if abs(float(ret) - exp) > 4 * math.ulp(abs(exp)) + 1e-300:
                key = "scalar/returned_value/" + ("unsigned" if abs(float(ret) + exp) <= 1e-9 * max(1, abs(exp)) and exp != 0 else "other")
                ctx.violation(key, "optimiser received %r for a point whose signed rounded cost is %r" % (ret, exp),
                              wit({"x": x, "true_cost": true}))
                return
        ctx.nontrivial((name, label, maximize, params["seed"]))
        ctx.count("cases")
        ctx.sample({"optimiser": label, "maximize": maximize, "queries": len(taps), "first_query": taps[0]}, name)


def requirements(ctx):
    ctx.require("batch_evaluations", 200)
    ctx.require("field_checks", 2000)
    ctx.require("marker_rank_checks", 100)
    ctx.require("sweep_runs", 20)
    ctx.require("second_sweeps_of_one_algorithm_object", 10)
    ctx.require("scalar_queries_checked", 200)
    ctx.require("scipy_runs", 8)
    ctx.require("nlopt_runs", 8)
