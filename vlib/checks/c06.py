"""C06 — transient evaluation failures are retried (<=5), logged, never recorded as results."""
import itertools

from .. import gen, hooks, rng as vrng

PID = "C06"
LEVEL = "fault_enumeration"
RULE = ("failure scripts 'attempt k of design d raises X': every single-design script with 0..5 leading transient failures x "
        "{TimeoutError, RuntimeError} per failure (63), every non-transient exception type at every attempt after 0..4 transient "
        "failures, all two-design combinations (thorough), random multi-design scripts, serial and threaded batches (script keyed by "
        "design); each execution is compared with an executable model of the retry loop. non-trivial = script with at least one "
        "failure; distinct by (script, batch shape, workers)")
ASSUMPTIONS = ["user-defined subclasses of RuntimeError/TimeoutError count as the transient kinds (Python exception semantics); built-in subclasses such as RecursionError are not generated", "a freshly sampled replacement differs from the failed "
               "vector (probability-0 coincidences ignored)"]
SHARDS = {"quick": 1, "thorough": 16}
WATCHDOG = {"quick": 900, "thorough": 3000}

class SolverDiverged(RuntimeError):
    """what user code typically raises: a subclass of the transient type"""


class SolverTooSlow(TimeoutError):
    pass


TRANSIENT = {"T": TimeoutError, "R": RuntimeError, "r": SolverDiverged, "t": SolverTooSlow}
OTHER = {"V": ValueError, "K": KeyError, "Z": ZeroDivisionError, "O": OSError, "C": ConnectionError}


def single_scripts():
    out = []
    for k in range(0, 6):
        for combo in itertools.product("TR", repeat=k):
            out.append("".join(combo))
    return out


def cases(ctx):
    for s in single_scripts():
        yield "script", {"scripts": [s], "procs": 1, "seed": ctx.subseed("s", s)}
    for k in range(1, 6):
        for sub in ("r", "t"):
            yield "script", {"scripts": [sub * k], "procs": 1, "seed": ctx.subseed("sub", k, sub)}
            yield "script", {"scripts": [("T" + sub) * 3][:1], "procs": 1, "seed": ctx.subseed("submix", k, sub)}
    for k in range(0, 5):
        for o in OTHER:
            for lead in ("T", "R"):
                yield "script", {"scripts": [lead * k + o], "procs": 1, "seed": ctx.subseed("o", k, o, lead)}
    rr = ctx.rng("multi")
    for i in range(ctx.pick(500, 120000)):
        nd = rr.randint(2, 8)
        scripts = []
        for _ in range(nd):
            c = rr.random()
            if c < 0.5:
                scripts.append("")
            elif c < 0.9:
                scripts.append("".join(rr.choice("TRTRrt") for _ in range(rr.randint(1, 4))))
            elif c < 0.95:
                scripts.append("".join(rr.choice("TR") for _ in range(5)))
            else:
                scripts.append("".join(rr.choice("TRrt") for _ in range(rr.randint(0, 4))) + rr.choice("VKZOC"))
        yield "script", {"scripts": scripts, "procs": rr.choice([1, 1, 2, 3, 4]), "seed": ctx.subseed("m", i)}
    if not ctx.quick:
        ss = single_scripts()
        for a in ss:
            for b in ss:
                yield "script", {"scripts": [a, b], "procs": 1, "seed": ctx.subseed("2", a, b)}
        for i in range(600):
            nd = rr.randint(2, 10)
            scripts = ["".join(rr.choice("TR") for _ in range(rr.choice([0, 0, 1, 2, 4, 5]))) for _ in range(nd)]
            yield "script", {"scripts": scripts, "procs": rr.choice([2, 3, 4]), "seed": ctx.subseed("p", i)}


def run_case(ctx, name, params):
    from artap.individual import Individual
    from artap.algorithm import DummyAlgorithm
    r = ctx.rng("c", params["seed"])
    scripts = params["scripts"]
    procs = params["procs"]
    n = r.randint(1, 4)
    bxs = gen.boxes(r, n, r.choice(["unit", "mixed", "neg", "asym", "offset"]))
    constrained = r.random() < 0.3
    mids = [lb + (ub - lb) / 2 for lb, ub in bxs]
    cons = (lambda x: [x[0] - mids[0]]) if constrained else None
    maximize = r.random() < 0.3
    fn = lambda x: [sum((a - m_) ** 2 for a, m_ in zip(x, mids)) + 1.0]
    attempts = {}     # individual id -> attempts so far
    idx_of = {}
    scripts_all = list(scripts)

    cur_box = [bxs]
    box_after = {}          # call number -> the box declared when that call ended (the objective may re-declare it, see below)
    redeclare = {"on": False, "left": 0}

    def script(call_no, vec, individual):
        d = idx_of[individual.id]
        k = attempts.get(individual.id, 0)
        attempts[individual.id] = k + 1
        s = scripts_all[d]
        exc = None
        if k < len(s):
            ch = s[k]
            exc = (TRANSIENT.get(ch) or OTHER[ch])("scripted failure %s attempt %d of design %d" % (ch, k + 1, d))
            if redeclare["on"] and redeclare["left"] > 0 and ch in TRANSIENT:
                # a trust-region style objective: before it gives up on this point it re-declares the search region (a new
                # parameter list); the replacement is "freshly sampled inside the bounds" -- the ones declared at that moment
                redeclare["left"] -= 1
                nb_ = gen.boxes(r, n, r.choice(["unit", "mixed", "neg", "asym", "offset"]))
                p.parameters = [{"name": "x%d" % i, "bounds": list(b)} for i, b in enumerate(nb_)]
                cur_box[0] = nb_
                ctx.count("search_region_redeclared_inside_a_failing_objective_call")
        box_after[call_no] = cur_box[0]
        return exc
    S = None
    eg = None
    if procs > 1:
        # failures of different designs must overlap in time: park every worker at objective entry and let a seeded
        # scheduler decide who goes next
        from .. import sched
        S = sched.Scheduler(params["seed"], r.choice(sched.Scheduler.POLICIES), expected=min(procs, len(scripts)))
        eg = lambda c: S.gate("obj_enter")
    iv_mode = r.random() < 0.15
    prm_iv = None
    if iv_mode:
        # parameters declared by an initial value only: their search interval is [0.5, 1.5] x initial_value (gen_vector's rule)
        ivs = [r.choice([1.0, 10.0, 0.02, 1234.5, r.uniform(0.5, 50)]) for _ in range(n)]
        bxs = [[0.5 * v, 1.5 * v] for v in ivs]
        mids[:] = [lb + (ub - lb) / 2 for lb, ub in bxs]
        prm_iv = [{"name": "x%d" % i, "initial_value": v} for i, v in enumerate(ivs)]
        ctx.count("cases_with_parameters_declared_by_initial_value_only")
    p = hooks.make_problem(n=n, m=1, bounds=bxs, fn=fn, cons=cons, script=script, entry_gate=eg,
                           criteria=["maximize" if maximize else "minimize"], params=prm_iv)
    vrng.install(vrng.SeededRandom(params["seed"]))
    alg = DummyAlgorithm(p)
    alg.options["max_processes"] = procs
    if params.get("warmup", params["seed"] % 3 == 0):
        # an earlier batch on the same algorithm/job object, with its own (non-fatal) failures: nothing counted there may
        # carry over into the batch that is judged
        ws = ["TR"[r.randrange(2)] * r.randint(0, 4) for _ in range(r.randint(1, 3))]
        if r.random() < 0.5:
            ws.append("TR"[r.randrange(2)] * r.randint(1, 4) + r.choice("VKZO"))   # ends the warm-up batch with an exception the caller catches
        warm = []
        for w_ in ws:
            wi = Individual([r.uniform(lb, ub) for lb, ub in bxs])
            idx_of[wi.id] = len(scripts_all)
            scripts_all.append(w_)
            warm.append(wi)
        ajw = hooks.ActiveJobs()
        try:
            try:
                alg.evaluate(warm)
            except BaseException:
                pass
            # workers of an aborted warm-up batch may still be parked at a gate or inside the objective: let them finish
            okw = ajw.wait_idle(90.0)
        finally:
            ajw.restore()
        if not okw:
            ctx.count("cases_abandoned_workers_still_running")
            if S is not None:
                S.shutdown()
            return
        ctx.count("warmup_batches")
        ctx.count("warmup_objective_calls", len(p.calls))      # a warm-up batch that never reaches the objective warms nothing up
        del p.failed[:]
        del p.calls[:]
    if iv_mode and r.random() < 0.6:
        # warm restart: the initial values are moved in place; the search interval follows them
        for q_ in p.parameters:
            q_["initial_value"] = q_["initial_value"] * r.choice([0.01, 100.0, 3.0, 0.2])
        bxs = [[0.5 * q_["initial_value"], 1.5 * q_["initial_value"]] for q_ in p.parameters]
        mids[:] = [lb + (ub - lb) / 2 for lb, ub in bxs]
        ctx.count("batches_after_initial_values_moved")
    elif not iv_mode and r.random() < 0.3:
        # the search region is re-declared after the algorithm (and its evaluator/job) was built: either the bounds are edited
        # in place or the problem gets a new parameter list; replacements are sampled "inside the bounds" -- the declared ones
        nb = gen.boxes(r, n, r.choice(["unit", "mixed", "neg", "asym", "offset"]))
        if r.random() < 0.5:
            p.parameters = [{"name": "x%d" % i, "bounds": list(b)} for i, b in enumerate(nb)]
            ctx.count("batches_after_parameter_list_reassigned")
        else:
            for q_, b in zip(p.parameters, nb):
                q_["bounds"][0], q_["bounds"][1] = b[0], b[1]
            ctx.count("batches_after_bounds_edited_in_place")
        bxs = nb
        mids[:] = [lb + (ub - lb) / 2 for lb, ub in bxs]
    cur_box[0] = bxs
    if procs == 1 and not iv_mode and not constrained and r.random() < 0.15:
        redeclare["on"] = True
        redeclare["left"] = r.randint(1, 2)
    batch = []
    for d in range(len(scripts)):
        ind = Individual([r.uniform(lb, ub) for lb, ub in bxs])
        idx_of[ind.id] = d
        batch.append(ind)
    start_vecs = [list(b.vector) for b in batch]
    caught = None
    aj = hooks.ActiveJobs()
    try:
        alg.evaluate(batch)
    except BaseException as e:
        caught = e
    finally:
        if S is not None:
            S.shutdown()
            # when the batch was aborted by an exception, other workers may still be inside the objective: let them finish
            import time as _t
            t_end = _t.time() + 1.0
            while _t.time() < t_end and any(c.result is None and c.exc is None for c in list(p.calls)):
                _t.sleep(0.002)
            _t.sleep(0.005)
            ctx.count("threaded_executions")
            ctx.count("scheduler_grants", S.grants)
        drained_ = aj.wait_idle(90.0)     # no worker of this batch may still be running when the case is judged (or the next one starts)
        aj.restore()
    if not drained_:
        ctx.count("cases_abandoned_workers_still_running")
        return
    ctx.count("executions")
    if any(scripts):
        ctx.nontrivial((tuple(scripts), procs, n))
    wit = lambda extra=None: {"scripts": scripts, "workers": procs, "caller_saw": repr(caught),
                              "failed_logged": len(p.failed), "objective_calls": len(p.calls), "extra": extra}
    # ---------------- model
    # per design: number of transient failures before the outcome; outcome in {ok, exhausted, other}
    def outcome(s):
        k = 0
        while k < len(s) and s[k] in TRANSIENT and k < 5:
            k += 1
        if k == 5:
            return k, "exhausted", None
        if k < len(s):
            return k, "other", OTHER[s[k]]
        return k, "ok", None
    model = [outcome(s) for s in scripts]
    # which designs are processed at all (serial: stop at the first fatal one)
    if procs == 1:
        processed = []
        fatal = None
        for d, (k, out, exc) in enumerate(model):
            processed.append(d)
            if out != "ok":
                fatal = d
                break
        untouched = [d for d in range(len(scripts)) if d not in processed]
    else:
        processed = None   # workers may or may not have started the others
        fatal = next((d for d, (k, out, exc) in enumerate(model) if out != "ok"), None)
        untouched = []
    # ---------------- exception seen by the caller
    ctx.count("caller_exception_checks")
    if fatal is None:
        if caught is not None:
            ctx.violation("retry/unexpected_exception", "caller saw %r although every design succeeds within 5 attempts" % caught, wit())
            return
    else:
        fatal_kinds = {(RuntimeError if out == "exhausted" else exc) for (k, out, exc) in model if out != "ok"} if procs > 1 else \
            {RuntimeError if model[fatal][1] == "exhausted" else model[fatal][2]}
        if caught is None:
            key = "retry/exhausted_not_raised" if model[fatal][1] == "exhausted" else "retry/other_exception_swallowed"
            ctx.violation(key, "caller saw no exception although design %d %s" % (fatal, "fails five times in a row" if
                          model[fatal][1] == "exhausted" else "raises a non-transient exception"), wit())
            return
        if type(caught) not in fatal_kinds:
            ctx.violation("retry/wrong_exception_type", "caller saw %r, expected one of %s" % (caught, sorted(k.__name__ for k in fatal_kinds)), wit())
            return
    # ---------------- per-design post-conditions
    by_ind = {}
    for c in p.calls:
        by_ind.setdefault(c.ind_id, []).append(c)
    failed_vecs = [tuple(f.vector) for f in p.failed]
    exp_failed_total = 0
    for d, ind in enumerate(batch):
        k, out, exc = model[d]
        calls = by_ind.get(ind.id, [])
        if d in untouched:
            ctx.count("untouched_design_checks")
            if calls or ind.state != Individual.State.EMPTY or list(ind.vector) != start_vecs[d]:
                ctx.violation("retry/later_design_touched", "a design after the fatal one was evaluated or modified (serial batch)", wit({"design": d}))
                return
            continue
        if procs > 1 and fatal is not None and not calls:
            continue   # never started because another worker's exception ended the batch
        expected_calls = k + (1 if out in ("ok", "other") else 0)
        if procs > 1 and fatal is not None and (len(calls) < expected_calls or (calls and calls[-1].result is None and calls[-1].exc is None)
                                                 or ind.state == Individual.State.IN_PROGRESS):
            continue   # cut short by the batch abort (or still in flight when the caller got the exception)
        ctx.count("design_checks")
        if len(calls) != expected_calls:
            key = "retry/attempts/" + ("more_than_five" if len(calls) > 5 else "fewer_than_five" if out == "exhausted" else "count")
            ctx.violation(key, "design %d: %d objective calls, model says %d (script %r)" % (d, len(calls), expected_calls, scripts[d]),
                          wit({"design": d}))
            return
        exp_failed_total += k
        # every failed attempt's vector is logged in failed; consecutive attempts use new in-box vectors
        for a, c in enumerate(calls):
            if a > 0:
                bx_ = box_after.get(calls[a - 1].n, bxs)      # the box in force when the previous attempt had failed
                t = [1e-12 + 2 * abs(ub) * 2.3e-16 + 2 * abs(lb) * 2.3e-16 for lb, ub in bx_]
                ctx.count("resample_checks")
                if any(not (lb - tt <= x <= ub + tt) for x, (lb, ub), tt in zip(c.vector, bx_, t)):
                    ctx.violation("retry/replacement_out_of_bounds", "replacement design outside the box", wit({"vector": c.vector, "bounds": bx_}))
                    return
                if list(c.vector) == list(calls[a - 1].vector):
                    ctx.violation("retry/not_resampled", "retry used the same vector as the failed attempt", wit({"vector": c.vector}))
                    return
            if a < k:
                if tuple(c.vector) not in failed_vecs:
                    ctx.violation("retry/failed_not_logged", "a failed vector is missing from problem.failed", wit({"vector": c.vector}))
                    return
        if out == "ok":
            last = calls[-1]
            if ind.state != Individual.State.EVALUATED or list(ind.vector) != list(last.vector) or list(ind.costs) != list(last.result):
                ctx.violation("retry/final_record", "finally stored costs/vector do not belong together or design not evaluated",
                              wit({"design": d, "vector": ind.vector, "costs": ind.costs, "last_call": last.vector, "returned": last.result}))
                return
            if list(ind.costs) != fn(ind.vector):
                ctx.violation("retry/final_costs", "stored costs are not f(stored vector)", wit({"design": d}))
                return
            if constrained:
                feas = all(g < 0 for g in cons(ind.vector))
                if bool(ind.costs_signed[-1]) != (not feas):
                    ctx.violation("retry/final_marker", "feasibility marker does not belong to the finally stored vector",
                                  wit({"design": d, "marker": ind.costs_signed[-1], "g": cons(ind.vector)}))
                    return
            if not constrained:
                # equal feasibility means equal markers: a design that needed retries must carry the same marker as one
                # that succeeded at once
                ctx.count("retried_marker_checks")
                ref_marker = True      # Individual default: feasible=0.0 -> marker (not 0.0) is True for every unconstrained design
                fresh = [b for dd, b in enumerate(batch) if model[dd][0] == 0 and model[dd][1] == "ok" and b.state == Individual.State.EVALUATED]
                if fresh:
                    ref_marker = fresh[0].costs_signed[-1]
                elif k > 0:
                    probe = Individual(list(ind.vector))
                    DummyAlgorithm(hooks.make_problem(n=n, m=1, bounds=bxs, fn=fn)).evaluate([probe])
                    ref_marker = probe.costs_signed[-1]
                if bool(ind.costs_signed[-1]) != bool(ref_marker):
                    ctx.violation("retry/final_marker_differs_from_untroubled_design", "a design that needed retries carries another "
                                  "feasibility marker (%r) than a design that succeeded at once (%r) although the problem has no "
                                  "constraints" % (ind.costs_signed[-1], ref_marker), wit({"design": d, "failures": k}))
                    return
        else:
            if ind.state == Individual.State.EVALUATED:
                ctx.violation("retry/failed_design_marked_evaluated", "design whose evaluation raised is marked evaluated", wit({"design": d}))
                return
    if procs == 1 or fatal is None:
        ctx.count("failed_list_checks")
        if len(p.failed) != exp_failed_total:
            key = "retry/failed_list/" + ("non_transient_logged" if len(p.failed) > exp_failed_total else "missing_entries")
            ctx.violation(key, "problem.failed has %d entries, model says %d" % (len(p.failed), exp_failed_total), wit())
            return
        for f in p.failed:
            if f.state != Individual.State.FAILED or f.costs:
                ctx.violation("retry/failed_entry_state", "entry of problem.failed is not a FAILED design without costs", wit())
                return
    ctx.count("cases")
    ctx.sample({"scripts": scripts, "workers": procs, "caller_saw": repr(caught), "failed_logged": len(p.failed),
                "objective_calls": len(p.calls)}, "serial" if procs == 1 else "threaded", 3)


def requirements(ctx):
    ctx.require("executions", 250)
    ctx.require("warmup_objective_calls", 100)
    ctx.require("design_checks", 500)
    ctx.require("resample_checks", 200)
    ctx.require("untouched_design_checks", 20)
    ctx.require("failed_list_checks", 200)
