"""C20 — design-point equality means equal coordinates and agrees with hashing."""
import itertools
from fractions import Fraction

from .. import hooks, oracles

PID = "C20"
LEVEL = "exploration"
RULE = ("pairs (a, b) with b = a perturbed in every non-empty subset of coordinates (exhaustive for n<=6) by deltas 1e-9..1e9 "
        "of both signs (float coordinates) or 1..1e9 (Python-int coordinates, small and beyond 2**53), identical copies, hash-colliding vectors (-1.0/-2.0, 0.0/-0.0), across Individual subclasses; the "
        "consequences `in`, set(), list.remove, Archive.remove, nondominated_truncate and GeneticAlgorithm.generate are "
        "driven with the same pairs. non-trivial = pair differing in a proper subset of coordinates or colliding hashes; "
        "distinct by (a, b)")
ASSUMPTIONS = ["differences strictly between 0 and 1e-9 are not generated (equality to 1e-10 and hashing legitimately disagree there)"]
SHARDS = {"quick": 1, "thorough": 16}
WATCHDOG = {"quick": 900, "thorough": 3000}

DELTAS = [1e-9, 1e-8, 1e-6, 1e-3, 0.5, 1.0, 7.0, 1e3, 1e9]
# integer-valued parameters give Python-int coordinates; there "any amount" starts at 1, whatever the magnitude (ids, time stamps
# and counts above 2**53 are not representable as doubles: a comparison that converts first cannot tell neighbours apart)
INT_DELTAS = [1, 2, 3, 7, 1000, 10 ** 9]


def deltas_for(x):
    return INT_DELTAS if isinstance(x, int) and not isinstance(x, bool) else DELTAS


def classes():
    from artap.individual import Individual
    from artap.algorithm_NSGAII import IndividualNSGAII
    from artap.algorithm_genetic import IndividualEpsMOEA
    from artap.algorithm_swarm import IndividualSwarm
    return [Individual, IndividualNSGAII, IndividualEpsMOEA, IndividualSwarm]


def expect_equal(a, b):
    """None when the pair is outside the generated domain"""
    eq = True
    for x, y in zip(a, b):
        if isinstance(x, float) and isinstance(y, float):
            d = abs(x - y)
        else:
            d = abs(Fraction(x) - Fraction(y))        # exact: ints above 2**53 must not be compared through doubles
        if d == 0:
            continue
        if d < 1e-9:
            return None
        eq = False
    return eq


def judge_pair(ctx, A, B, tag):
    a, b = A.vector, B.vector
    exp = expect_equal(a, b)
    if exp is None:
        ctx.count("pairs_outside_domain_skipped")
        return None
    ctx.count("eq_checks")
    wit = lambda: {"a": a, "b": b, "classes": [type(A).__name__, type(B).__name__]}
    try:
        e1 = (A == B)
        e2 = (B == A)
    except Exception as e:
        ctx.violation("eq/exception", "== raised %r" % e, wit())
        return None
    nd = sum(1 for x, y in zip(a, b) if x != y)
    if 0 < nd < len(a) or (nd > 0 and hash(tuple(a)) == hash(tuple(b))):
        ctx.nontrivial((tuple(a), tuple(b)))
    if bool(e1) != exp:
        which = [i for i, (x, y) in enumerate(zip(a, b)) if x != y]
        last = (len(a) - 1) in which
        ctx.violation("eq/definition/%s" % ("equal_expected" if exp else ("differs_incl_last" if last else "differs_not_in_last_coordinate")),
                      "a == b is %r but coordinates %s" % (e1, "coincide" if exp else "differ at %s" % which), wit())
    if bool(e1) != bool(e2):
        ctx.violation("eq/symmetry", "a == b is %r but b == a is %r" % (e1, e2), wit())
    if list(a) == list(b):
        ctx.count("hash_checks")
        if hash(A) != hash(B):
            ctx.violation("hash/identical_vectors", "identical vectors have different hashes", wit())
    # consequences
    ctx.count("consequence_checks")
    if (B in [A]) != exp:
        ctx.violation("consequence/membership", "`b in [a]` is %r" % (B in [A]), wit())
    ns = len(set([A, B]))
    if ns != (1 if exp else 2):
        ctx.violation("consequence/set_dedup", "len(set([a, b])) is %d" % ns, wit())
    lst = [A]
    try:
        lst.remove(B)
        removed = True
    except ValueError:
        removed = False
    if removed != exp:
        ctx.violation("consequence/list_remove", "[a].remove(b) %s" % ("removed a distinct design" if removed else
                                                                        "did not find the identical design"), wit())
    from artap.archive import Archive
    ar = Archive()
    ar._contents.append(A)
    got = ar.remove(B)
    if bool(got) != exp or (len(ar) == 0) != exp:
        ctx.violation("consequence/archive_remove", "Archive.remove(b) returned %r on [a]" % got, wit())
    return exp


def cases(ctx):
    for n in range(1, ctx.pick(5, 6) + 1):
        yield "subsets", {"n": n, "seed": ctx.subseed("s", n)}
    for i in range(ctx.pick(100, 100000)):
        yield "random_pairs", {"seed": ctx.subseed("r", i), "n": 300}
    for i in range(ctx.pick(200, 200000)):
        yield "truncate", {"seed": ctx.subseed("t", i)}
    for i in range(ctx.pick(300, 300000)):
        yield "history", {"seed": ctx.subseed("hi", i)}
    for i in range(ctx.pick(300, 300000)):
        yield "generate", {"seed": ctx.subseed("g", i)}


def base_vector(r, n):
    kind = r.choice(["small", "unit", "big", "neg", "ints", "collide", "pyints", "bigints"])
    if kind == "pyints":
        return [r.randint(-5, 5) for _ in range(n)]
    if kind == "bigints":
        return [r.choice([-1, 1]) * (r.choice([2 ** 53, 2 ** 53 + 1, 10 ** 17, 2 ** 62, 10 ** 18 + 7, 2 ** 64, 10 ** 30]) + r.randint(-4, 4))
                for _ in range(n)]
    if kind == "small":
        return [r.uniform(-1e-6, 1e-6) for _ in range(n)]
    if kind == "unit":
        return [r.uniform(0, 1) for _ in range(n)]
    if kind == "big":
        return [r.uniform(-1e9, 1e9) for _ in range(n)]
    if kind == "neg":
        return [-r.uniform(1, 100) for _ in range(n)]
    if kind == "ints":
        return [float(r.randint(-5, 5)) for _ in range(n)]
    return [r.choice([-1.0, -2.0, 0.0, -0.0]) for _ in range(n)]


def run_case(ctx, name, params):
    cls = classes()
    if name == "subsets":
        n = params["n"]
        r = ctx.rng("s", params["seed"])
        cnt = 0
        for rep in range(3):
            a = base_vector(r, n)
            for k in range(0, n + 1):
                for sub in itertools.combinations(range(n), k):
                    for di in (range(len(DELTAS)) if k else [None]):
                        for sign in ((1, -1) if k else (1,)):
                            b = list(a)
                            for i in sub:
                                ds = deltas_for(a[i])
                                b[i] = a[i] + sign * ds[di % len(ds)]
                            A = r.choice(cls)(a)
                            B = r.choice(cls)(b)
                            judge_pair(ctx, A, B, "subsets")
                            ctx.count("cases")
                            cnt += 1
        ctx.sample({"n": n, "pairs": cnt, "example_a": a, "deltas": DELTAS}, "subsets", 2)
    elif name == "random_pairs":
        r = ctx.rng("r", params["seed"])
        for _ in range(params["n"]):
            n = r.randint(1, 8)
            a = base_vector(r, n)
            c = r.random()
            if c < 0.2:
                b = list(a)
            elif c < 0.5:
                # hash collisions: -1.0 <-> -2.0 swap in one coordinate other than the last
                b = list(a)
                i = r.randrange(n)
                b[i] = -2.0 if a[i] == -1.0 else (-1.0 if a[i] == -2.0 else (-a[i] if a[i] == 0 else a[i] + r.choice(deltas_for(a[i]))))
            else:
                b = [x + (r.choice(deltas_for(x)) * r.choice([-1, 1]) if r.random() < 0.4 else 0) for x in a]
            A = r.choice(cls)(a)
            c2 = r.random()
            if c2 < 0.7:
                B = r.choice(cls)(b)
            else:
                # provenance: the second point is a clone of the first (deepcopy, pickle round trip, dictionary round trip as
                # the data stores do) whose vector was then set -- clones carry the same id, and are design points like any other
                import copy as _copy
                import pickle as _pickle
                if c2 < 0.8:
                    B = _copy.deepcopy(A)
                elif c2 < 0.9:
                    B = _pickle.loads(_pickle.dumps(A))
                else:
                    B = type(A).from_dict(A.to_dict())
                B.vector = list(b)
                ctx.count("pairs_with_a_cloned_point")
            judge_pair(ctx, A, B, "random")
            ctx.count("cases")
            ctx.sample({"a": a, "b": b, "equal_expected": expect_equal(a, b)}, "random_pair")
    elif name == "history":
        # a design point is hashed / compared, then its vector is re-assigned, overwritten by sync() or updated in place (all
        # three happen in the library: mutation in generate, the retry in Job.evaluate, swarm position updates); afterwards it
        # must equal -- and hash like -- a fresh point with the same coordinates, and differ from its former self
        from artap.operators import nondominated_truncate, TournamentSelector
        r = ctx.rng("hi", params["seed"])
        n = r.randint(1, 5)
        A = r.choice(cls)(base_vector(r, n))
        ops = []
        for step in range(r.randint(1, 6)):
            op = r.choice(["hash", "set", "eq", "assign", "inplace", "sync", "dict"])
            ops.append(op)
            if op == "hash":
                hash(A)
            elif op == "set":
                {A}
            elif op == "dict":
                {A: 1}.get(A)
            elif op == "eq":
                A == r.choice(cls)(list(A.vector))
            elif op == "assign":
                A.vector = base_vector(r, n)
            elif op == "inplace":
                i = r.randrange(n)
                A.vector[i] = A.vector[i] + r.choice(deltas_for(A.vector[i])) * r.choice([-1, 1])
            else:
                other = r.choice(cls)(base_vector(r, n))
                A.sync(other)
            fresh = r.choice(cls)(list(A.vector))
            ctx.count("history_checks")
            wit = lambda: {"operations": ops, "vector_now": list(A.vector)}
            if not (A == fresh) or not (fresh == A):
                ctx.violation("history/eq_after_update", "a point whose vector was updated does not equal a fresh point with the same coordinates", wit())
                return
            if hash(A) != hash(fresh):
                ctx.violation("history/hash_after_update", "identical vectors, different hashes after the vector of a hashed point was updated", wit())
                return
            if len({A, fresh}) != 1:
                ctx.violation("history/set_dedup_after_update", "set() keeps a repeated design twice after one copy's vector was updated", wit())
                return
            A.costs_signed = [1.0, 0]
            fresh.costs_signed = [1.0, 0]
            TournamentSelector([{"name": "x", "bounds": [0, 1]}]).fast_nondominated_sorting([A, fresh])
            if len(nondominated_truncate([A, fresh], 5)) != 1:
                ctx.violation("history/truncate_dedup_after_update", "nondominated_truncate keeps a repeated design twice after an update", wit())
                return
        ctx.nontrivial(("hist", tuple(ops), n))
        ctx.count("cases")
    elif name == "truncate":
        # set()-based de-duplication inside nondominated_truncate must keep every distinct design
        from artap.operators import nondominated_truncate, TournamentSelector
        r = ctx.rng("t", params["seed"])
        n = r.randint(1, 4)
        size = r.randint(2, 12)
        last = float(r.randint(0, 1))
        vecs = []
        for _ in range(size):
            v = base_vector(r, n)
            if r.random() < 0.7 and n > 1:
                v = [r.choice([-1.0, -2.0]) for _ in range(n - 1)] + [last]
            vecs.append(v)
        pop = []
        for v in vecs:
            ind = r.choice(cls)(v)
            ind.costs_signed = [sum(v), -sum(v), 0]
            pop.append(ind)
        TournamentSelector([{"name": "x", "bounds": [0, 1]}]).fast_nondominated_sorting(pop)
        distinct = len({tuple(v) for v in vecs})
        # "population: iterable": a list, a tuple, or something that can be walked only once
        kind_ = r.choice(["list", "list", "tuple", "iterator", "generator", "chain"])
        import itertools as _it
        arg_ = pop if kind_ == "list" else tuple(pop) if kind_ == "tuple" else iter(pop) if kind_ == "iterator" else \
            (o_ for o_ in pop) if kind_ == "generator" else _it.chain(pop[:len(pop) // 2], pop[len(pop) // 2:])
        ctx.count("truncations_of_a_" + kind_)
        res = nondominated_truncate(arg_, size * 2)
        ctx.count("truncate_dedup_checks")
        if distinct < size or len({hash(tuple(v)) for v in vecs}) < distinct:
            ctx.nontrivial(("tr", tuple(map(tuple, vecs))))
        got = len({tuple(o.vector) for o in res})
        if len(res) != distinct or got != distinct:
            ctx.violation("consequence/truncate_dedup", "nondominated_truncate kept %d of %d distinct designs"
                          % (got, distinct), {"vectors": vecs})
        ctx.count("cases")
    elif name == "generate":
        from artap.algorithm_NSGAII import NSGAII
        r = ctx.rng("g", params["seed"])
        n = r.randint(1, 4)
        N = r.randint(2, 8)
        prob = hooks.make_problem(n=n, m=1)
        alg = NSGAII(prob)
        alg.options["max_population_size"] = N
        pool = [base_vector(r, n) for _ in range(3)]
        script = []
        for _ in range(200):
            pair = []
            for _k in range(2):
                c = r.random()
                if c < 0.3 and script:
                    pair.append(list(r.choice(r.choice(script))))       # exact repeat
                elif c < 0.6:
                    b = list(r.choice(pool))
                    if n > 1:
                        i = r.randrange(n - 1)
                        b[i] = b[i] + r.choice(deltas_for(b[i]))         # differs, but not in the last coordinate
                    else:
                        b[0] += r.choice(deltas_for(b[0]))
                    pair.append(b)
                else:
                    pair.append(base_vector(r, n))
            script.append(pair)
        it = iter(script)
        used = []

        class Sel:
            def select(self, parents):
                return parents[0]

        class Cross:
            def cross(self, v1, v2):
                p = next(it)
                used.append(p)
                return list(p[0]), list(p[1])

        class Mut:
            def mutate(self, a, b=None):
                return a
        alg.selector, alg.crossover, alg.mutator = Sel(), Cross(), Mut()
        parents = [alg.problem.__class__ and classes()[1](pool[0])]
        try:
            off = alg.generate(parents)
        except StopIteration:
            ctx.violation("consequence/generate_starved", "generate rejected 400 scripted children without filling "
                          "the population", {"N": N, "script": script[:6]})
            return
        except Exception as e:
            ctx.violation("consequence/generate_exception", "generate raised %r" % e, {"N": N})
            return
        # model: a child is taken iff it differs (coordinate-wise) from every offspring taken so far
        model = []
        for p in used:
            for v in p:
                if len(model) >= N:
                    break
                e = [expect_equal(v, m) for m in model]
                if any(x is None for x in e):
                    model = None
                    break
                if not any(e):
                    model.append(v)
            if model is None:
                break
        ctx.count("generate_checks")
        if model is not None:
            got = [list(o.vector) for o in off]
            ctx.nontrivial(("gen", N, tuple(map(tuple, got))))
            if got != model:
                ctx.violation("consequence/generate_duplicates", "offspring list differs from 'take every child that is a "
                              "new design' model", {"N": N, "got": got, "model": model, "children": used[:8]})
        ctx.count("cases")
        ctx.sample({"N": N, "n": n, "children_offered": sum(len(p) for p in used), "taken": len(off)}, "generate")


def requirements(ctx):
    ctx.require("eq_checks", 2000)
    ctx.require("hash_checks", 100)
    ctx.require("truncate_dedup_checks", 20)
    ctx.require("generate_checks", 20)
    ctx.require("history_checks", 200)
