"""C09 — runs keep exact generation bookkeeping, budget and generational elitism."""
import collections
import math

from .. import gen, hooks, insitu, oracles
from ..hooks import Patches

PID = "C09"
LEVEL = "exploration"
RULE = ("runs of NSGA-II, eps-MOEA, OMOPSO, SMPSO over N in 2..24, G in 1..12, 1..5 parameters, 1..3 objectives, seeds, with and "
        "without scripted transient failures (never 5 in a row), also with a coarse declared precision (designs on a grid of 3N..6N "
        "points, where re-drawn designs coincide); populations() and the objective call log are compared with the "
        "counting rules, elitism is checked between consecutive NSGA-II generations with the oracle dominance; pop_acceptance is "
        "driven directly and observed inside eps-MOEA. non-trivial = run with G>=2 (elitism applies) or with injected failures, "
        "acceptance step with a dominated/dominating offspring; distinct by (algorithm, N, G, seed)")
ASSUMPTIONS = ["injected failure rate <= 0.2 and never five consecutive failures of one design"]
SHARDS = {"quick": 1, "thorough": 16}
WATCHDOG = {"quick": 900, "thorough": 3000}
ALGOS = ["nsga2", "epsmoea", "omopso", "smpso"]


def cases(ctx):
    for i in range(ctx.pick(320, 96000)):
        yield "run", {"seed": ctx.subseed("r", i), "algo": ALGOS[i % 4] if i % 8 < 4 else "nsga2", "fail": i % 3 == 0}
    for i in range(ctx.pick(1200, 500000)):
        yield "acceptance", {"seed": ctx.subseed("a", i)}


def judge_acceptance(ctx, before, offspring, after, tag):
    """before/after: lists of objects; returns nothing"""
    ctx.count("acceptance_steps")
    oc = offspring.costs_signed
    dominated_members = [b for b in before if oracles.odom(oc, b.costs_signed) == 1]
    is_dominated = any(oracles.odom(b.costs_signed, oc) == 1 for b in before)
    wit = lambda: {"offspring": oc, "members": [b.costs_signed for b in before][:20],
                   "after": [b.costs_signed for b in after][:20]}
    if len(after) != len(before):
        ctx.violation("acceptance/size/" + tag, "working population changed size from %d to %d" % (len(before), len(after)), wit())
        return
    removed = [b for b in before if not any(b is a for a in after)]
    added = [a for a in after if not any(a is b for b in before)]
    if dominated_members:
        ctx.nontrivial(("acc", "dom", tuple(oc), len(before)))
        if len(removed) != 1 or not any(removed[0] is d for d in dominated_members) or len(added) != 1 or added[0] is not offspring:
            ctx.violation("acceptance/dominating_offspring/" + tag, "an offspring that dominates members must replace exactly one of "
                          "the members it dominates", wit())
    elif is_dominated:
        ctx.nontrivial(("acc", "rej", tuple(oc), len(before)))
        if removed or added:
            ctx.violation("acceptance/dominated_offspring/" + tag, "a dominated offspring that dominates no member must be rejected", wit())
    else:
        # when the offspring is a duplicate (by vector) of a member, list.remove may take the equal object: still one replaced
        if len(added) != 1 or added[0] is not offspring or len(removed) != 1:
            ctx.violation("acceptance/other_offspring/" + tag, "a non-dominated, non-dominating offspring must replace exactly one member", wit())


class _FirstRunView:
    """what the problem had recorded when the first run ended (the second run appended to the same lists)"""

    def __init__(self, p, k0, c0):
        self._p = p
        self.individuals = list(p.individuals[:k0])
        self.calls = [c for c in p.calls if c.n < self._n_calls_first(p, c0)]
        self.failed = None

    @staticmethod
    def _n_calls_first(p, c0):
        ok = 0
        for c in p.calls:
            if c.exc is None and c.result is not None:
                ok += 1
                if ok == c0:
                    return c.n + 1
        return 0 if c0 == 0 else len(p.calls)

    def ok_calls(self):
        return [c for c in self.calls if c.exc is None and c.result is not None]

    def populations(self):
        out = {}
        for i in self.individuals:
            out.setdefault(i.population_id, []).append(i)
        return out


def run_case(ctx, name, params):
    from artap.individual import Individual
    r = ctx.rng(name, params["seed"])
    if name == "run":
        algo = params["algo"]
        setup = insitu.random_setup(r, algo=algo, max_n=5, max_m=3, max_N=24, max_G=12,
                                    families=["unit", "mixed", "neg", "asym", "offset"])
        if setup["m"] == 1 and r.random() < 0.5 and algo == "nsga2":
            setup["constrained"] = False
        N, G = setup["N"], setup["G"]
        fail_rate = r.choice([0.05, 0.1, 0.2]) if params["fail"] else 0.0
        fr = ctx.rng("fail", params["seed"])
        streak = collections.defaultdict(int)

        # some first runs are aborted in the middle by an exception that is not a transient failure (a bug in the user's model, a
        # licence error, Ctrl-C turned into an exception): the caller sees it, keeps the algorithm object and runs it again
        abort = {"at": None}
        exp_total = N * G if algo == "nsga2" else N * (G + 1)
        rerun = r.random() < 0.4
        if rerun and r.random() < 0.6:
            abort["at"] = r.randrange(0, exp_total)

        def script(call_no, vec, individual):
            if abort["at"] is not None and call_no >= abort["at"]:
                abort["at"] = None
                return ValueError("injected non-transient failure: the run is aborted")
            if fail_rate and streak[individual.id] < 3 and fr.random() < fail_rate:
                streak[individual.id] += 1
                return fr.choice([TimeoutError, RuntimeError])("injected transient failure")
            streak[individual.id] = 0
            return None
        pt = Patches()
        from artap.operators import Selector

        def mk_acc(orig):
            def pop_acceptance(self, individuals, individual, *a, **kw):
                before = list(individuals)
                res = orig(self, individuals, individual, *a, **kw)
                judge_acceptance(ctx, before, individual, list(individuals), "insitu")
                ctx.count("insitu_acceptance_steps")
                return res
            return pop_acceptance
        pt.wrap_attr(Selector, "pop_acceptance", mk_acc)
        try:
            extra_ = {}
            if fail_rate and algo == "nsga2" and r.random() < 0.7:
                # coarse declared precision: designs re-drawn after a failure lie on a grid and can coincide -- also with each other
                prm_ = []
                # the grid must be able to carry N distinct designs comfortably (at least 3N..6N grid points), otherwise "N designs, none
                # repeated" cannot be satisfied by any implementation
                k_ = max(2, int(math.ceil((r.uniform(3, 6) * N) ** (1.0 / setup["n"]))))
                for i_, (lb, ub) in enumerate(setup["bounds"]):
                    prm_.append({"name": "x%d" % i_, "bounds": [lb, ub], "precision": (ub - lb) / k_})
                extra_["params"] = prm_
                fail_rate = max(fail_rate, r.choice([0.2, 0.35]))
                ctx.count("runs_with_coarse_precision_and_failures")
            if algo == "nsga2" and "params" not in extra_ and r.random() < 0.3:
                # a start population supplied by the user (public attribute `generator`), some designs listed more than once: the
                # first generation may repeat designs, no later one does
                start_ = [[lb + r.random() * (ub - lb) for lb, ub in setup["bounds"]] for _ in range(N)]
                for k_ in range(N):
                    if k_ and r.random() < 0.4:
                        start_[k_] = list(start_[r.randrange(k_)])

                def prepare_(a_, p_):
                    from artap.operators import CustomGenerator
                    g_ = CustomGenerator(p_.parameters)
                    g_.init([list(v) for v in start_])
                    a_.generator = g_
                extra_["prepare"] = prepare_
                ctx.count("nsga2_runs_with_a_user_supplied_start_population_with_repeats")
            aborted_first = abort["at"] is not None
            p, a, err = insitu.run_one(setup, script=script if (fail_rate or aborted_first) else None, **extra_)
            if rerun and not isinstance(err, insitu.RunTimeout) and (err is None or (aborted_first and isinstance(err, ValueError))):
                # the same algorithm object runs again on the same problem: the second run must again record generations
                # 0..G (NSGA-II: 1..G) of N designs with the full budget -- judged on what the second run appended
                k0, c0 = len(p.individuals), len(p.ok_calls())
                abort["at"] = None
                p2, a2, err2 = insitu.run_one(setup, problem=p, algorithm=a)
                ctx.count("second_runs_on_the_same_algorithm_object")
                if aborted_first and err is not None:
                    ctx.count("second_runs_after_an_aborted_run")
                wit2 = lambda extra=None: {"algo": algo, "N": N, "G": G, "seed": setup["seed"], "first_run": "aborted by an injected "
                                           "ValueError" if err is not None else "completed", "extra": extra}
                if isinstance(err2, insitu.RunTimeout):
                    ctx.count("runs_stopped_by_wall_clock_guard")
                elif err2 is not None:
                    ctx.violation("rerun/%s/exception" % algo, "second run of the same %s object raised %r" % (algo, err2), wit2())
                    return
                else:
                    new = p.individuals[k0:]
                    tags = collections.Counter(i.population_id for i in new)
                    first_ = 1 if algo == "nsga2" else 0
                    exp_ = {t: N for t in range(first_, G + 1)}
                    if dict(tags) != exp_:
                        ctx.violation("rerun/%s/generations" % algo, "second run of the same object recorded generations %s (tag: designs), "
                                      "expected %d designs for each of %s" % (dict(sorted(tags.items(), key=lambda kv: str(kv[0]))), N, sorted(exp_)), wit2())
                        return
                    if len(p.ok_calls()) - c0 != exp_total:
                        ctx.violation("rerun/%s/budget" % algo, "second run of the same object used %d successful evaluations, expected %d"
                                      % (len(p.ok_calls()) - c0, exp_total), wit2())
                        return
                if err is not None:
                    ctx.count("cases")
                    return
                # the first (completed) run is judged below on its own records
                p = _FirstRunView(p, k0, c0)
        finally:
            pt.restore()
        ctx.count("runs")
        wit = lambda extra=None: {"algo": algo, "N": N, "G": G, "n": setup["n"], "m": setup["m"], "seed": setup["seed"],
                                  "failure_rate": fail_rate, "constrained": setup["constrained"], "extra": extra}
        if isinstance(err, insitu.RunTimeout):
            ctx.count("runs_stopped_by_wall_clock_guard")
            return
        if err is not None:
            ctx.violation("run/%s/exception" % algo, "%s run raised %r" % (algo, err), wit({"traceback": getattr(err, "_tb", "")[-600:]}))
            return
        pops = p.populations()
        ok_calls = len(p.ok_calls())
        first = 1 if algo == "nsga2" else 0
        exp_tags = list(range(first, G + 1))
        exp_calls = N * G if algo == "nsga2" else N * (G + 1)
        ctx.count("bookkeeping_checks")
        if sorted(pops) != exp_tags:
            ctx.violation("bookkeeping/%s/tags" % algo, "recorded generation tags %s, expected %s" % (sorted(pops), exp_tags), wit())
            return
        sizes = {t: len(v) for t, v in pops.items()}
        if any(s != N for s in sizes.values()):
            ctx.violation("bookkeeping/%s/generation_size" % algo, "generation sizes %s, expected %d each" % (sizes, N), wit())
            return
        if ok_calls != exp_calls:
            ctx.violation("bookkeeping/%s/budget" % algo, "%d successful objective evaluations, expected %d" % (ok_calls, exp_calls), wit())
            return
        if fail_rate and p.failed is not None and len(p.failed) != len(p.calls) - ok_calls:
            ctx.violation("bookkeeping/failed_list", "%d failed calls but %d logged in problem.failed" % (len(p.calls) - ok_calls, len(p.failed)), wit())
            return
        for t, inds in pops.items():
            for i in inds:
                # (NSGA-II parent copies carry their costs but keep state EMPTY: the state is not part of this property)
                if len(i.costs) != setup["m"] or len(i.costs_signed) != setup["m"] + 1:
                    ctx.violation("bookkeeping/%s/recorded_without_costs" % algo, "a recorded design of generation %d carries no costs" % t, wit())
                    return
        if algo == "nsga2":
            for t in range(2, G + 1):
                vs = [tuple(i.vector) for i in pops[t]]
                ctx.count("distinct_generation_checks")
                if len(set(vs)) != len(vs):
                    ctx.violation("bookkeeping/nsga2/repeated_design", "generation %d contains a repeated design" % t, wit())
                    return
            for t in range(1, G):
                ctx.count("elitism_checks")
                cur = pops[t]
                nxt = pops[t + 1]
                nxt_vecs = {tuple(i.vector) for i in nxt}
                dropped = [i for i in cur if tuple(i.vector) not in nxt_vecs]
                # for an unconstrained problem every design is equally feasible: the oracle compares objectives only
                mk = (lambda c: list(c)) if setup["constrained"] else (lambda c: list(c[:-1]) + [0])
                for s in nxt:
                    for d in dropped:
                        if oracles.odom(mk(d.costs_signed), mk(s.costs_signed)) == 1:
                            ctx.violation("elitism/nsga2/survivor_dominated_by_dropped", "a design of generation %d is dominated by a "
                                          "design of generation %d that was dropped" % (t + 1, t),
                                          wit({"survivor": s.costs_signed, "dropped": d.costs_signed}))
                            return
                if setup["m"] == 1 and not setup["constrained"]:
                    b0 = min(i.costs_signed[0] for i in cur)
                    b1 = min(i.costs_signed[0] for i in nxt)
                    if b1 > b0:
                        ctx.violation("elitism/nsga2/best_cost_worse", "best signed cost went from %r to %r between generations %d and %d"
                                      % (b0, b1, t, t + 1), wit())
                        return
        if G >= 2 or fail_rate:
            ctx.nontrivial(("run", algo, N, G, setup["seed"], fail_rate))
        ctx.count("cases")
        ctx.sample({"algo": algo, "N": N, "G": G, "objectives": setup["m"], "failure_rate": fail_rate,
                    "successful_calls": ok_calls, "failed_calls": len(p.calls) - ok_calls, "tags": sorted(pops)}, "run_" + algo, 1)
    else:
        from artap.operators import TournamentSelector
        sel = TournamentSelector([{"name": "x", "bounds": [0, 1]}])
        size = r.randint(1, 12)
        m = r.randint(1, 3)
        costs = gen.population_costs(r, size + 1, m)
        members = []
        for k, c in enumerate(costs[:-1]):
            ind = Individual([float(k), r.uniform(0, 1)] if r.random() < 0.8 or not members else list(members[0].vector))
            ind.costs_signed = list(c)
            members.append(ind)
        off = Individual([99.0, r.uniform(0, 1)] if r.random() < 0.8 else list(members[0].vector))
        mode = r.random()
        if mode < 0.3:
            base = r.choice(members).costs_signed
            off.costs_signed = [x - r.choice([0.0, 1.0]) for x in base[:-1]] + [base[-1]]
        elif mode < 0.6:
            base = r.choice(members).costs_signed
            off.costs_signed = [x + r.choice([0.0, 1.0]) for x in base[:-1]] + [base[-1]]
        else:
            off.costs_signed = list(costs[-1])
        before = list(members)
        import random as _random
        from .. import rng as vrng
        vrng.install(vrng.SeededRandom(params["seed"]))
        try:
            sel.pop_acceptance(members, off)
        except Exception as e:
            ctx.violation("acceptance/exception", "pop_acceptance raised %r" % e, {"members": [b.costs_signed for b in before], "offspring": off.costs_signed})
            return
        judge_acceptance(ctx, before, off, list(members), "direct")
        ctx.count("cases")


def requirements(ctx):
    ctx.require("bookkeeping_checks", 40)
    ctx.require("elitism_checks", 50)
    ctx.require("distinct_generation_checks", 50)
    ctx.require("acceptance_steps", 300)
    ctx.require("insitu_acceptance_steps", 50)
