"""C17 — result queries and quality indicators are faithful views of the recorded data."""
import collections
import math

from .. import hooks, oracles

PID = "C17"
LEVEL = "exploration"
RULE = ("recorded sets built by the harness (1..40 individuals, 1..5 generation tags in arbitrary recording order or all -1, "
        "duplicate values, costs closer than the precision declared on the individuals with signed copies made by the library's "
        "calc_signed_costs, 1..3 goals with random criteria, 1..4 parameters) queried through every Results method of the "
        "statement (also a second time after more recording, and after the record changed without changing its length) and compared with a recomputation from the recorded individuals; random point sets through gd/epsilon_add "
        "against independent implementations. non-trivial = recorded set with >=2 tags or duplicate values / indicator case "
        "with >=2 points per set; distinct by the recorded data")
ASSUMPTIONS = ["no pairing is demanded between parameters() and costs() (different documented orders)"]
SHARDS = {"quick": 1, "thorough": 16}
WATCHDOG = {"quick": 900, "thorough": 3000}


def cases(ctx):
    for i in range(ctx.pick(1500, 250000)):
        yield "queries", {"seed": ctx.subseed("q", i)}
    for i in range(ctx.pick(1800, 300000)):
        yield "indicators", {"seed": ctx.subseed("i", i)}


def build(r):
    from artap.individual import Individual
    n = r.randint(1, 4)
    m = r.randint(1, 3)
    crit = [r.choice(["minimize", "maximize"]) for _ in range(m)]
    p = hooks.make_problem(n=n, m=m, criteria=crit)
    if r.random() < 0.6:
        # names are the user's: the same few names in another order from one problem to the next (several problems live in one
        # process), names that are prefixes of each other, names with blanks
        for c_, nm_ in zip(p.costs, r.sample(["mass", "loss", "cost", "f", "f_1", "f_10", "eff iciency", "P", "p", "T", "t", "Mass"], m)):
            c_["name"] = nm_
        for q_, nm_ in zip(p.parameters, r.sample(["x", "x_1", "x_10", "width", "height", "a b", "mass_", "X", "Width", "w", "W"], n)):
            q_["name"] = nm_
    if r.random() < 0.15:
        p.costs[0].pop("criteria")   # criteria absent means minimise
        crit[0] = "minimize"
    size = r.randint(1, 40)
    ntags = r.randint(1, 5)
    tags = [-1] if r.random() < 0.15 else r.sample(range(0, 9), ntags)
    valstyle = r.choice(["grid", "float", "mixed", "near_ties", "near_ties", "bigmix"])
    # "near_ties": recorded costs that differ by less than the precision declared on the individuals (a converged run): the
    # queries answer from the recorded costs, whatever their rounded, signed working copies look like; these individuals get
    # their working copies from the library's own calc_signed_costs, as Job.evaluate does
    prec = r.choice([7, 7, 2, 1, 0, 4])
    step = 10.0 ** -(prec + r.randint(1, 3))
    bases = [float(r.randint(-2, 3)) for _ in range(m)]
    signs = [1 if c == "minimize" else -1 for c in crit]
    inds = []
    for _ in range(size):
        vec = [float(r.randint(0, 3)) if valstyle != "float" and r.random() < 0.8 else r.uniform(-5, 5) for _ in range(n)]
        costs = [float(r.randint(0, 3)) if valstyle != "float" and r.random() < 0.8 else r.uniform(-5, 5) for _ in range(m)]
        if valstyle == "bigmix":
            # integer-valued parameters and costs (counts, ids, time stamps) beyond 2**53 next to floats: neighbouring integers
            # are different values, whatever a float conversion makes of them
            bm = lambda: r.choice([2 ** 53 + r.randint(0, 3), 2 ** 53 + r.randint(0, 3), -(2 ** 53) - r.randint(0, 3), float(r.randint(0, 3)),
                                   r.randint(-3, 3), r.uniform(-5, 5)])
            vec = [bm() for _ in range(n)]
            costs = [bm() for _ in range(m)]
        ind = Individual(vec)
        if valstyle == "near_ties":
            costs = [b + r.randint(-4, 4) * step if r.random() < 0.85 else b + r.randint(1, 3) for b in bases]
            ind.costs = costs
            ind.features["precision"] = prec
            ind.calc_signed_costs(signs)
        else:
            ind.costs = costs
            ind.costs_signed = [c * (1 if crit[j] == "minimize" else -1) for j, c in enumerate(costs)] + [0]
        ind.population_id = r.choice(tags)
        ind.features["front_number"] = r.choice([1, 1, 2, 3])
        inds.append(ind)
        p.individuals.append(ind)
    return p, inds, n, m, crit, tags


def pairs(a, b):
    return collections.Counter(zip(a, b))


def run_case(ctx, name, params):
    from artap.results import Results
    r = ctx.rng(name, params["seed"])
    if name == "queries":
        p, inds, n, m, crit, tags = build(r)
        res = Results(p)
        if r.random() < 0.5 and len(inds) >= 2:
            # the Results object is created and queried while the run is still recording: individuals recorded afterwards
            # (and tags changed afterwards) must show up in later answers
            late = inds[len(inds) // 2:]
            del p.individuals[len(inds) // 2:]
            try:
                res.population(); res.table(); res.costs(); res.parameters(); res.find_optimum()
                res.goal_on_index(); res.pareto_front()
            except Exception:
                pass
            if r.random() < 0.4:
                # the record is emptied and refilled in place (what read_from_datastore does when an archive is attached)
                keep_ = list(p.individuals)
                p.individuals.clear()
                for i in keep_:
                    p.individuals.append(i)
            for i in late:
                p.individuals.append(i)
            if r.random() < 0.5:
                inds[0].population_id = r.choice(tags)
            ctx.count("queries_repeated_after_more_recording")
        elif r.random() < 0.6 and len(inds) >= 2:
            # everything is recorded and queried once; then the record changes WITHOUT changing its length (generation tags corrected
            # in place, the list re-ordered as a new list object of the same designs): later answers describe the record as it is now
            try:
                res.population(); res.table(); res.parameters(); res.pareto_front(); res.goal_on_index()
                for t_ in sorted({i.population_id for i in inds}):
                    res.population(t_)
            except Exception:
                pass
            for i in r.sample(inds, r.randint(1, max(1, len(inds) // 2))):
                i.population_id = r.choice(tags)
            if r.random() < 0.4 and p.individuals is not inds:
                p.individuals = list(p.individuals)
            ctx.count("queries_repeated_after_same_length_change")
        rec = [{"vector": i.vector, "costs": i.costs, "tag": i.population_id, "front": i.features["front_number"]} for i in inds]
        wit = lambda extra=None: {"recorded": rec[:12], "criteria": crit, "extra": extra}
        present = sorted({i.population_id for i in inds})
        if len(present) >= 2 or len({tuple(i.vector) for i in inds}) < len(inds):
            ctx.nontrivial(tuple((tuple(i.vector), tuple(i.costs), i.population_id) for i in inds))

        def guard(fn, label):
            try:
                return True, fn()
            except Exception as e:
                ctx.violation("results/%s/exception" % label, "%s raised %r" % (label, e), wit())
                return False, None

        # population(t), default = last generation
        for t in present + [-1]:
            ok, got = guard(lambda: res.population(t) if t != -1 or r.random() < 0.5 else res.population(), "population")
            if not ok:
                return
            ctx.count("population_checks")
            if t == -1:
                mx = max(present)
                exp = [i for i in inds if i.population_id == mx]
            else:
                exp = [i for i in inds if i.population_id == t]
            if len(got) != len(exp) or any(a is not b for a, b in zip(got, exp)):
                ctx.violation("results/population", "population(%r) is not the recorded individuals with that tag in recording "
                              "order (%d returned, %d expected)" % (t, len(got), len(exp)), wit({"tag": t}))
                return
        # table
        for tr in (True, False):
            ok, tab = guard(lambda: res.table(transpose=tr), "table")
            if not ok:
                return
            ctx.count("table_checks")
            rows = list(zip(*tab)) if tr else [tuple(x) for x in tab]
            exp = collections.Counter(tuple(i.vector + i.costs) for i in inds)
            if collections.Counter(tuple(x) for x in rows) != exp:
                ctx.violation("results/table", "table rows are not each individual's own parameters + costs", wit({"transpose": tr}))
                return
        # per-goal / per-parameter listings
        pnames = [q["name"] for q in p.parameters]
        gnames = [c["name"] for c in p.costs]
        for _ in range(4):
            pn = r.randrange(n)
            gn = r.randrange(m)
            t = r.choice(present + [-1])
            srt = r.random() < 0.6
            pop = [i for i in inds if i.population_id == (max(present) if t == -1 else t)]
            exp = pairs([i.vector[pn] for i in pop], [i.costs[gn] for i in pop])
            ok, out = guard(lambda: res.goal_on_parameter(pnames[pn], gnames[gn], population_id=t, sorted=srt), "goal_on_parameter")
            if not ok:
                return
            ctx.count("pairing_checks")
            if len(out) != 2 or pairs(out[0], out[1]) != exp or (srt and list(out[0]) != sorted(out[0])):
                ctx.violation("results/goal_on_parameter/" + ("sorted" if srt else "unsorted"),
                              "goal_on_parameter does not keep each individual's parameter paired with its own cost"
                              + (" / keys not sorted" if srt else ""), wit({"out": out, "tag": t}))
                return
            ok, out = guard(lambda: res.parameter_on_goal(gnames[gn], pnames[pn], population_id=t, sorted=srt), "parameter_on_goal")
            if not ok:
                return
            ctx.count("pairing_checks")
            if len(out) != 2 or pairs(out[1], out[0]) != exp or (srt and list(out[0]) != sorted(out[0])):
                ctx.violation("results/parameter_on_goal/" + ("sorted" if srt else "unsorted"),
                              "parameter_on_goal does not keep pairs together" + (" / keys not sorted" if srt else ""),
                              wit({"out": out, "tag": t}))
                return
            p2 = r.randrange(n)
            ok, out = guard(lambda: res.parameter_on_parameter(pnames[pn], pnames[p2], population_id=t, sorted=srt), "parameter_on_parameter")
            if not ok:
                return
            ctx.count("pairing_checks")
            exp2 = pairs([i.vector[pn] for i in pop], [i.vector[p2] for i in pop])
            if len(out) != 2 or pairs(out[0], out[1]) != exp2 or (srt and list(out[0]) != sorted(out[0])):
                ctx.violation("results/parameter_on_parameter/" + ("sorted" if srt else "unsorted"),
                              "parameter_on_parameter does not keep pairs together", wit({"out": out, "tag": t}))
                return
            # *_on_index
            nm = r.choice([None, gnames[gn]])
            ok, out = guard(lambda: res.goal_on_index(name=nm, population_id=t), "goal_on_index")
            if not ok:
                return
            ctx.count("index_checks")
            cols = [[i.costs[j] for i in pop] for j in (range(m) if nm is None else [gn])]
            if out != [list(range(len(pop)))] + cols:
                ctx.violation("results/goal_on_index", "goal_on_index differs from the population's goal values in order",
                              wit({"out": out, "tag": t, "name": nm}))
                return
            nm = r.choice([None, pnames[pn]])
            ok, out = guard(lambda: res.parameter_on_index(name=nm, population_id=t), "parameter_on_index")
            if not ok:
                return
            ctx.count("index_checks")
            cols = [[i.vector[j] for i in pop] for j in (range(n) if nm is None else [pn])]
            if out != [list(range(len(pop)))] + cols:
                ctx.violation("results/parameter_on_index", "parameter_on_index differs from the population's parameter values",
                              wit({"out": out, "tag": t, "name": nm}))
                return
        # costs(), parameters()
        ok, cs = guard(lambda: res.costs(), "costs")
        if not ok:
            return
        ctx.count("costs_checks")
        if cs != [[i.costs[j] for i in inds] for j in range(m)]:
            ctx.violation("results/costs", "costs() is not the per-goal list in recording order", wit({"out": cs}))
            return
        ok, ps = guard(lambda: res.parameters(), "parameters")
        if not ok:
            return
        if collections.Counter(map(tuple, ps)) != collections.Counter(tuple(i.vector) for i in inds):
            ctx.violation("results/parameters", "parameters() is not the multiset of recorded vectors", wit())
            return
        # find_optimum
        for j in range(m):
            nm = gnames[j] if (j > 0 or r.random() < 0.7) else None
            ok, o = guard(lambda: res.find_optimum(nm), "find_optimum")
            if not ok:
                return
            ctx.count("optimum_checks")
            vals = [i.costs[j] for i in inds]
            best = max(vals) if crit[j] == "maximize" else min(vals)
            if not any(o is i for i in inds) or o.costs[j] != best:
                ctx.violation("results/find_optimum/" + crit[j], "find_optimum(%r) returned cost %r, the %s over all recorded "
                              "individuals is %r" % (nm, getattr(o, "costs", [None] * m)[j], "maximum" if crit[j] == "maximize"
                                                     else "minimum", best), wit({"goal": j}))
                return
        # pareto_front
        t = r.choice(present + [None])
        ok, pf = guard(lambda: res.pareto_front(t), "pareto_front")
        if not ok:
            return
        ctx.count("pareto_front_checks")
        pop = [i for i in inds if i.population_id == (max(present) if t is None else t)]
        exp = [[i.costs[j] for i in pop if i.features["front_number"] == 1] for j in range(m)]
        if pf != exp:
            ctx.violation("results/pareto_front", "pareto_front differs from the costs of front-1 members", wit({"out": pf, "tag": t}))
            return
        ctx.count("cases")
        ctx.sample({"individuals": len(inds), "tags": present, "criteria": crit, "first": rec[:2]}, "queries")
    elif name == "indicators":
        from artap.quality_indicator import gd, epsilon_add
        d = r.randint(1, 4)
        style = r.choice(["grid", "float"])
        pt = lambda: tuple(float(r.randint(0, 4)) if style == "grid" else r.uniform(-3, 3) for _ in range(d))
        ref = [pt() for _ in range(r.randint(1, 12))]
        mode = r.choice(["random", "subset", "identical", "shifted", "mixed"])
        shift = None
        if mode == "random":
            comp = [pt() for _ in range(r.randint(1, 12))]
        elif mode == "subset":
            comp = [r.choice(ref) for _ in range(r.randint(1, 8))]
        elif mode == "identical":
            comp = list(ref)
        elif mode == "shifted":
            shift = r.choice([0.0, 0.25, 1.0, r.uniform(0, 2)])
            comp = [tuple(x + shift for x in q) for q in ref]
        else:
            comp = [r.choice(ref) for _ in range(r.randint(1, 4))] + [pt() for _ in range(r.randint(1, 4))]
        K = 1.0
        if r.random() < 0.25:
            # the same point sets at another magnitude (exact: a power of two); distances and shifts scale with them
            K = 2.0 ** r.choice([-400, -100, -30, 30, 100, 400])
            ref = [tuple(x * K for x in q) for q in ref]
            comp = [tuple(x * K for x in q) for q in comp]
            shift = None if shift is None else shift * K
            ctx.count("indicator_cases_at_rescaled_magnitude")
        atol = 1e-12 * K
        wit = lambda: {"reference": ref, "computed": comp, "mode": mode, "shift": shift}
        if len(ref) >= 2 and len(comp) >= 2:
            ctx.nontrivial((tuple(ref), tuple(comp)))
        for norm in ("euclidean", "chebyshev"):
            try:
                g = float(gd(ref, comp, norm=norm) if norm != "euclidean" or r.random() < 0.5 else gd(ref, comp))
            except Exception as e:
                ctx.violation("indicator/gd/exception", "gd raised %r" % e, wit())
                return
            ctx.count("gd_checks")
            exp = oracles.gd_ref(ref, comp, norm)
            if not oracles.close(g, exp, 1e-9, atol):
                ctx.violation("indicator/gd/value", "gd(%s)=%r, mean nearest-reference distance is %r" % (norm, g, exp), wit())
                return
            sub = all(c in set(ref) for c in comp)
            if (g == 0) != sub:
                ctx.violation("indicator/gd/zero_iff_subset", "gd is %r but computed %s a subset of the reference"
                              % (g, "is" if sub else "is not"), wit())
                return
        try:
            e = float(epsilon_add(ref, comp))
        except Exception as ex:
            ctx.violation("indicator/epsilon_add/exception/%s" % type(ex).__name__, "epsilon_add raised %r" % ex, wit())
            return
        ctx.count("epsilon_checks")
        exp = oracles.eps_add_ref(ref, comp)
        if not oracles.close(e, exp, 1e-9, atol) or e < 0:
            ctx.violation("indicator/epsilon_add/value", "epsilon_add=%r, max-min-max floored at 0 is %r" % (e, exp), wit())
            return
        if mode == "identical" and e != 0:
            ctx.violation("indicator/epsilon_add/identical_sets", "epsilon_add of identical sets is %r" % e, wit())
            return
        if mode == "shifted":
            ctx.count("epsilon_shift_checks")
            if not oracles.close(e, shift, 1e-9, atol):
                ctx.violation("indicator/epsilon_add/shift", "reference shifted by %r gives epsilon_add=%r" % (shift, e), wit())
                return
        ctx.count("cases")
        ctx.sample({"mode": mode, "reference": ref[:3], "computed": comp[:3]}, "indicators")


def requirements(ctx):
    ctx.require("population_checks", 200)
    ctx.require("queries_repeated_after_same_length_change", 50)
    ctx.require("pairing_checks", 500)
    ctx.require("optimum_checks", 100)
    ctx.require("gd_checks", 200)
    ctx.require("epsilon_checks", 100)
    ctx.require("epsilon_shift_checks", 10)
