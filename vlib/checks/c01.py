"""C01 — constrained Pareto dominance is a strict partial order; epsilon agreement."""
import itertools

import numpy as np

from .. import gen, hooks, insitu, oracles
from ..hooks import Patches

PID = "C01"
LEVEL = "exploration"
RULE = ("pairs/triples of signed-cost vectors: exhaustive grids {0,1,2}^m x marker pairs, random floats with "
        "injected ties, epsilon lists, plus every comparison made inside real algorithm runs; a pair is "
        "non-trivial when it is comparable (one dominates) or has at least one tied coordinate; distinct = "
        "distinct (comparator, p, q)")
ASSUMPTIONS = ["violation markers are compared by magnitude (-v and +v are equally infeasible; the objectives then decide)",
               "epsilon agreement demanded only on pairs whose coordinates are equal or differ by >1e-9 relative"]
SHARDS = {"quick": 1, "thorough": 16}
WATCHDOG = {"quick": 900, "thorough": 3000}

MARK = [0, False, True, 1, 0.5, 2, -1.0, -0.5]


def _ops():
    from artap.operators import ParetoDominance, EpsilonDominance
    return ParetoDominance, EpsilonDominance


def cases(ctx):
    for m in range(1, ctx.pick(3, 4) + 1):
        yield "grid_pairs", {"m": m}
    yield "grid_triples", {}
    nb = ctx.pick(20, 3200)
    for i in range(nb):
        yield "random_pairs", {"seed": ctx.subseed("rp", i), "n": 5000}
    for i in range(ctx.pick(8, 1280)):
        yield "random_triples", {"seed": ctx.subseed("rt", i), "n": 2000}
    for i in range(ctx.pick(16, 2560)):
        yield "eps_pairs", {"seed": ctx.subseed("ep", i), "n": 3000}
    for i in range(ctx.pick(16, 960)):
        yield "insitu", {"seed": ctx.subseed("is", i)}


def _nontrivial(p, q):
    if oracles.odom(p, q) != 0:
        return True
    return any(a == b for a, b in zip(p[:-1], q[:-1]))


def _judge_pareto(ctx, cmp, p, q, tag):
    try:
        v = cmp.compare(p, q)
    except Exception as e:
        ctx.violation("pareto/exception", "ParetoDominance.compare raised %r" % e, {"p": p, "q": q})
        return None
    ctx.count("pareto_verdicts")
    exp = oracles.odom(p, q)
    if v != exp:
        ctx.violation("pareto/verdict/" + tag, "verdict %r differs from constrained-Pareto order %r" % (v, exp),
                      {"p": p, "q": q, "got": v, "expected": exp})
    if _nontrivial(p, q):
        ctx.nontrivial(("P", tuple(p), tuple(q)))
    return v


def _laws_pair(ctx, cmp, p, q):
    v1 = _judge_pareto(ctx, cmp, p, q, "pair")
    v2 = _judge_pareto(ctx, cmp, q, p, "pair")
    ctx.count("antisymmetry_checks")
    if v1 is not None and v2 is not None:
        mirror = {0: 0, 1: 2, 2: 1}
        if mirror.get(v1) != v2:
            ctx.violation("pareto/antisymmetry", "swapping the arguments does not swap the verdict",
                          {"p": p, "q": q, "pq": v1, "qp": v2})
    vr = cmp.compare(p, list(p))
    ctx.count("irreflexivity_checks")
    if vr != 0:
        ctx.violation("pareto/irreflexive", "a vector dominates itself", {"p": p, "got": vr})
    return v1, v2


def _trans(ctx, cmp, a, b, c):
    vab = cmp.compare(a, b)
    vbc = cmp.compare(b, c)
    vac = cmp.compare(a, c)
    ctx.count("transitivity_checks")
    if vab == 1 and vbc == 1:
        ctx.count("transitivity_premise_true")
        ctx.nontrivial(("T", tuple(a), tuple(b), tuple(c)))
        if vac != 1:
            ctx.violation("pareto/transitivity", "a>b and b>c but not a>c (recorded verdicts)",
                          {"a": a, "b": b, "c": c, "ab": vab, "bc": vbc, "ac": vac})
    if vab == 2 and vbc == 2:
        ctx.count("transitivity_premise_true")
        if vac != 2:
            ctx.violation("pareto/transitivity", "c>b and b>a but not c>a (recorded verdicts)",
                          {"a": a, "b": b, "c": c, "ab": vab, "bc": vbc, "ac": vac})


def separated(p, q):
    for a, b in zip(p[:-1], q[:-1]):
        if a == b:
            continue
        if abs(a - b) <= 1e-9 * max(abs(a), abs(b), 1e-300):
            return False
    return True


def _judge_eps(ctx, ed, eps, p, q, tag):
    try:
        v = ed.compare(p, q)
    except Exception as e:
        ctx.violation("epsilon/exception", "EpsilonDominance.compare raised %r" % e,
                      {"p": p, "q": q, "eps": eps})
        return
    ctx.count("epsilon_verdicts")
    identical = list(p[:-1]) == list(q[:-1]) and oracles.marker(p[-1]) == oracles.marker(q[-1])
    if identical:
        ctx.count("epsilon_identical")
        ctx.nontrivial(("E=", tuple(p), repr(eps)))
        if v not in (1, 2):
            ctx.violation("epsilon/identical_no_loser", "identical vectors: no loser named (archives would keep "
                          "duplicates)", {"p": p, "q": q, "eps": eps, "got": v})
        return
    if not separated(p, q):
        ctx.count("epsilon_unseparated_skipped")
        return
    exp = oracles.odom(p, q)
    if _nontrivial(p, q):
        ctx.nontrivial(("E", tuple(p), tuple(q), repr(eps)))
    if v != exp:
        ctx.violation("epsilon/verdict/" + tag, "epsilon verdict %r differs from Pareto verdict %r on separated "
                      "vectors" % (v, exp), {"p": p, "q": q, "eps": eps, "got": v, "expected": exp})


def hostile_pair(r, m):
    """pairs built to defeat shortcuts: a tie at a huge magnitude next to a small difference, one-ulp differences,
    sums that overflow, negated huge objectives, denormals"""
    import math
    kind = r.choice(["absorb", "ulp", "overflow", "negbig", "denormal"])
    if kind == "absorb":
        big = r.choice([1e17, 4e16, 1e12, -1e17, 3e15])
        p = [big] + [r.choice([1.0, 0.5, 2.0, 1e-3]) for _ in range(m - 1)]
        q = list(p)
        if m > 1:
            k = r.randrange(1, m)
            q[k] = p[k] + r.choice([1.0, -1.0, 0.5, 1e-3])
        else:
            q[0] = math.nextafter(p[0], math.inf)
    elif kind == "ulp":
        p = [r.uniform(-1, 1) for _ in range(m)]
        q = list(p)
        k = r.randrange(m)
        q[k] = math.nextafter(p[k], r.choice([math.inf, -math.inf]))
    elif kind == "overflow":
        p = [r.choice([1e308, -1e308, 1.7e308]) for _ in range(m)]
        q = list(p)
        k = r.randrange(m)
        q[k] = p[k] * r.choice([0.5, 0.999]) if r.random() < 0.7 else p[k]
        if m > 1 and r.random() < 0.5:
            p[-1], q[-1] = 1.0, 2.0
    elif kind == "negbig":
        p = [r.uniform(0, 2)] + [-4e16] * (m - 1)
        q = [p[0] + r.choice([0.5, -0.5, 0.0])] + [-4e16] * (m - 1)
    else:
        p = [r.choice([5e-324, 0.0, -0.0, 2.2e-308]) for _ in range(m)]
        q = [r.choice([5e-324, 0.0, -0.0, 2.2e-308]) for _ in range(m)]
    return p, q


def _conv(r, vec):
    """randomly present values as numpy float64 / Python float"""
    k = r.random()
    if k < 0.2:
        return [np.float64(v) if not isinstance(v, bool) else v for v in vec]
    if k < 0.3 and not isinstance(vec[-1], bool) and vec[-1] == int(vec[-1]) and 0 <= vec[-1] < 200:
        # violation counts kept in unsigned numpy integers (a marker column of dtype uint8): differences wrap around
        return list(vec[:-1]) + [r.choice([np.uint8, np.uint16, np.uint64])(int(vec[-1]))]
    return vec


def _pareto(ctx, key):
    """a Pareto comparator obtained in one of the public ways: its `epsilons` keyword exists so that selectors can construct
    either comparator uniformly -- the Pareto order does not depend on it"""
    from artap.operators import ParetoDominance, TournamentSelector
    r = ctx.rng("pareto_ctor", key)
    how = r.choice(["plain", "plain", "kw_none", "kw_list", "kw_scalar", "selector", "selector_eps"])
    ctx.count("pareto_comparators_built_" + how)
    prm = [{"name": "x", "bounds": [0, 1]}]
    if how == "plain":
        return ParetoDominance()
    if how == "kw_none":
        return ParetoDominance(epsilons=None)
    if how == "kw_list":
        return ParetoDominance(epsilons=[r.choice([0.1, 0.5, 1e-3])] * r.randint(1, 3))
    if how == "kw_scalar":
        return ParetoDominance(epsilons=r.choice([0.05, 1.0]))
    if how == "selector":
        return TournamentSelector(prm).dominance
    return TournamentSelector(prm, dominance=ParetoDominance, epsilons=[r.choice([0.1, 0.5])] * r.randint(1, 2)).dominance


def run_case(ctx, name, params):
    Pareto, Eps = _ops()
    cmp = _pareto(ctx, (name, repr(sorted(params.items()))))
    if name == "grid_pairs":
        m = params["m"]
        pts = [list(map(float, t)) for t in itertools.product((0, 1, 2), repeat=m)]
        if len(pts) > 30:  # m=4: 81 points; all pairs x all marker pairs = 236k verdict pairs
            marks = [(a, b) for a in MARK for b in MARK]
        else:
            marks = [(a, b) for a in MARK for b in MARK]
        for a in pts:
            for b in pts:
                for ma, mb in marks:
                    _laws_pair(ctx, cmp, a + [ma], b + [mb])
                    ctx.count("cases")
        ctx.sample({"workload": name, "m": m, "pairs": len(pts) ** 2 * len(marks),
                    "example": [pts[1] + [True], pts[-1] + [0]]}, "grid_pairs", 1)
        ctx.exhaustive = False
    elif name == "grid_triples":
        pts = [list(map(float, t)) + [mk] for t in itertools.product((0, 1, 2), repeat=2) for mk in (0, 1)]
        for a in pts:
            for b in pts:
                for c in pts:
                    _trans(ctx, cmp, a, b, c)
                    ctx.count("cases")
        ctx.sample({"workload": name, "triples": len(pts) ** 3}, "grid_triples", 1)
    elif name == "random_pairs":
        r = ctx.rng("rp", params["seed"])
        for _ in range(params["n"]):
            m = r.randint(1, 8)
            style = r.choice(["grid", "grid_neg", "dyadic", "float", "wide"])
            p = gen.cost_vector(r, m, style)
            q = gen.related_vector(r, p) if r.random() < 0.7 else gen.cost_vector(r, m, style)
            if r.random() < 0.15:
                p, q = hostile_pair(r, m)
                ctx.count("hostile_numeric_pairs")
            mp = gen.marker_value(r)
            mq = mp if r.random() < 0.6 else gen.marker_value(r)
            P, Q = _conv(r, p + [mp]), _conv(r, q + [mq])
            v1, v2 = _laws_pair(ctx, cmp, P, Q)
            ctx.count("cases")
            ctx.sample({"p": P, "q": Q, "verdict": v1}, "random_pair")
    elif name == "random_triples":
        r = ctx.rng("rt", params["seed"])
        for _ in range(params["n"]):
            m = r.randint(1, 6)
            a = gen.cost_vector(r, m, r.choice(["grid", "dyadic", "float"]))
            b = gen.related_vector(r, a)
            c = gen.related_vector(r, b)
            mk = [gen.marker_value(r) for _ in range(3)]
            if r.random() < 0.6:
                mk = [mk[0]] * 3
            tri = [a + [mk[0]], b + [mk[1]], c + [mk[2]]]
            r.shuffle(tri)
            _trans(ctx, cmp, *tri)
            ctx.count("cases")
    elif name == "eps_pairs":
        r = ctx.rng("ep", params["seed"])
        shared = []
        for _ in range(params["n"]):
            m = r.randint(1, 6)
            k = r.randint(1, m + 1)
            eps = [r.choice([1e-6, 1e-3, 0.01, 0.1, 0.5, 1.0, 3.0, 10.0, r.uniform(1e-6, 10)]) for _ in range(k)]
            style = r.choice(["grid", "dyadic", "float", "dec7", "wide"])
            p = gen.cost_vector(r, m, style)
            c = r.random()
            if c < 0.25:
                q = list(p)
            elif c < 0.75:
                q = gen.related_vector(r, p)
            else:
                q = gen.cost_vector(r, m, style)
            mp = gen.marker_value(r)
            mq = mp if r.random() < 0.7 else gen.marker_value(r)
            form = r.random()
            if shared and r.random() < 0.5:
                # one comparator object serves vectors of different lengths (as the default comparator shared by every
                # Archive() does): nothing learnt from an earlier pair may leak into a later verdict
                ed, eps = r.choice(shared)
                ctx.count("verdicts_on_reused_comparator_objects")
            elif form < 0.15 and k == 1:
                ed = Eps(eps[0])
            elif form < 0.3:
                ed = Eps(tuple(eps))
            else:
                ed = Eps(list(eps))
            if len(shared) < 4 and r.random() < 0.2:
                shared.append((ed, list(eps)))
            _judge_eps(ctx, ed, eps, p + [mp], q + [mq], "pair")
            _judge_eps(ctx, ed, eps, q + [mq], p + [mp], "pair")
            ctx.count("cases")
            ctx.sample({"eps": eps, "p": p + [mp], "q": q + [mq]}, "eps_pair")
    elif name == "insitu":
        r = ctx.rng("is", params["seed"])
        setup = insitu.random_setup(r, max_N=12, max_G=5, families=["unit", "mixed", "neg", "asym"])
        pt = Patches()
        seen = []

        def mk_p(orig):
            def compare(self, p, q, *a, **kw):
                v = orig(self, p, q, *a, **kw)
                seen.append(("P", list(p), list(q), v, None))
                return v
            return compare

        def mk_e(orig):
            def compare(self, p, q, *a, **kw):
                v = orig(self, p, q, *a, **kw)
                seen.append(("E", list(p), list(q), v, list(self.epsilons)))
                return v
            return compare
        pt.wrap_attr(Pareto, "compare", mk_p)
        pt.wrap_attr(Eps, "compare", mk_e)
        try:
            p, a, err = insitu.run_one(setup)
        finally:
            pt.restore()
        ctx.count("insitu_runs")
        if err is not None:
            ctx.count("insitu_runs_aborted")
        for kind, p_, q_, v, eps in seen:
            if len(p_) < 2 or len(p_) != len(q_):
                continue
            if kind == "P":
                ctx.count("insitu_pareto_verdicts")
                exp = oracles.odom(p_, q_)
                if _nontrivial(p_, q_):
                    ctx.nontrivial(("P", tuple(p_), tuple(q_)))
                if v != exp:
                    ctx.violation("pareto/verdict/insitu", "in-run verdict %r differs from %r" % (v, exp),
                                  {"p": p_, "q": q_, "setup": setup})
            else:
                ctx.count("insitu_epsilon_verdicts")
                identical = p_[:-1] == q_[:-1] and oracles.marker(p_[-1]) == oracles.marker(q_[-1])
                if identical:
                    if v not in (1, 2):
                        ctx.violation("epsilon/identical_no_loser", "in-run identical vectors, no loser",
                                      {"p": p_, "q": q_, "eps": eps})
                elif separated(p_, q_):
                    exp = oracles.odom(p_, q_)
                    if v != exp:
                        ctx.violation("epsilon/verdict/insitu", "in-run epsilon verdict %r differs from %r" % (v, exp),
                                      {"p": p_, "q": q_, "eps": eps, "setup": setup})
        ctx.count("cases")
        ctx.sample({"setup": {k: setup[k] for k in ("algo", "n", "m", "N", "G")}, "comparisons": len(seen)},
                   "insitu", 2)


def requirements(ctx):
    ctx.require("pareto_verdicts", 1000)
    ctx.require("epsilon_verdicts", 1000)
    ctx.require("epsilon_identical", 100)
    ctx.require("transitivity_premise_true", 100)
    ctx.require("insitu_pareto_verdicts", 100)
