"""C02 — non-dominated sorting assigns every individual its true Pareto rank."""
import itertools

from .. import gen, insitu, oracles
from ..hooks import Patches

PID = "C02"
LEVEL = "exploration"
RULE = ("populations from templates (grid ties, duplicates, chains, antichains, layered fronts, mixed feasibility), each "
        "sorted in several shuffled orders (40 % of them mixing Individual subclasses), all tiny populations over {0,1,2}^2 x {feasible,infeasible} in every order, "
        "and every population sorted inside NSGA-II/OMOPSO runs; non-trivial = at least two fronts or a duplicated cost "
        "vector; distinct = distinct ordered list of cost vectors")
ASSUMPTIONS = ["each object appears once per list (unique ids), as in real use"]
SHARDS = {"quick": 1, "thorough": 16}
WATCHDOG = {"quick": 900, "thorough": 3000}


def _mk(costs, r=None):
    """r given: some populations mix the library's Individual classes (an archive member next to a swarm particle, a restored
    plain Individual next to NSGA-II offspring): every freshly constructed object is a distinct individual, whatever its class"""
    from artap.individual import Individual
    classes = [Individual]
    if r is not None and r.random() < 0.4:
        from artap.algorithm_NSGAII import IndividualNSGAII
        from artap.algorithm_genetic import IndividualEpsMOEA
        from artap.algorithm_swarm import IndividualSwarm

        class UserIndividual(Individual):
            pass
        classes = r.sample([Individual, IndividualNSGAII, IndividualEpsMOEA, IndividualSwarm, UserIndividual], r.randint(2, 5))
    out = []
    for c in costs:
        ind = (classes[0] if len(classes) == 1 else r.choice(classes))([0.0])
        ind.costs_signed = list(c)
        out.append(ind)
    return out


def _selector(ctx=None, key=None):
    """the sorter is a method of every selector; the tournament options of a selector (its comparator class and epsilons) configure
    the tournament, never the ranks"""
    from artap import operators as ops
    prm = [{"name": "x", "bounds": [0, 1]}]
    if ctx is None:
        return ops.TournamentSelector(prm)
    r = ctx.rng("selector_ctor", key)
    how = r.choice(["tournament", "tournament", "tournament_eps_comparator", "tournament_eps_kw", "dummy", "copy"])
    ctx.count("selectors_built_" + how)
    if how == "tournament":
        return ops.TournamentSelector(prm)
    if how == "tournament_eps_comparator":
        return ops.TournamentSelector(prm, dominance=ops.EpsilonDominance, epsilons=[r.choice([0.1, 0.5, 1e-3])] * r.randint(1, 3))
    if how == "tournament_eps_kw":
        return ops.TournamentSelector(prm, epsilons=[0.1, 0.1])
    if how == "dummy":
        return ops.DummySelector(prm)
    return ops.CopySelector(prm)


def judge(ctx, costs, inds, tag, extra=None):
    """costs: snapshot of costs_signed at entry, same order as inds."""
    ctx.count("sort_calls")
    exp = oracles.ranks(costs)
    got = [i.features.get("front_number") for i in inds]
    if len(set(exp)) > 1 or len(set(map(tuple, costs))) < len(costs):
        ctx.nontrivial(tuple(map(tuple, costs)))
    if any(g is None for g in got):
        ctx.violation("sort/unranked", "an individual was left without a front number",
                      {"costs": costs, "got": got, "expected": exp, "extra": extra})
        return got
    if got != exp:
        k = next(i for i in range(len(exp)) if got[i] != exp[i])
        ctx.violation("sort/rank/" + tag, "front number %r of individual %d differs from its true rank %r" % (got[k], k, exp[k]),
                      {"costs": costs, "got": got, "expected": exp, "extra": extra})
    # members of one front never dominate each other (on the returned numbering)
    byf = {}
    for c, g in zip(costs, got):
        byf.setdefault(g, []).append(c)
    for g, members in byf.items():
        ctx.count("front_antichain_checks")
        uniq = list(dict.fromkeys(map(tuple, members)))
        for a, b in itertools.combinations(uniq, 2):
            if oracles.odom(a, b) != 0:
                ctx.violation("sort/front_not_antichain", "two members of one front dominate each other",
                              {"front": g, "a": a, "b": b})
                break
    return got


def cases(ctx):
    yield "tiny_exhaustive", {"size": 1}
    yield "tiny_exhaustive", {"size": 2}
    yield "tiny_exhaustive", {"size": 3}
    if not ctx.quick:
        for first in range(18):
            yield "tiny_exhaustive", {"size": 4, "first": first}
    for i in range(ctx.pick(900, 32000)):
        yield "generated", {"seed": ctx.subseed("g", i), "max_size": ctx.pick(40, 150)}
    for i in range(ctx.pick(40, 2400)):
        yield "insitu", {"seed": ctx.subseed("is", i), "algo": ["nsga2", "omopso", "nsga2"][i % 3]}


def run_case(ctx, name, params):
    sel = _selector(ctx, (name, repr(sorted(params.items()))))
    if name == "tiny_exhaustive":
        vecs = [list(map(float, t)) + [mk] for t in itertools.product((0, 1, 2), repeat=2) for mk in (0, True)]
        size = params["size"]
        firsts = [params["first"]] if "first" in params else range(len(vecs))
        n = 0
        for f in firsts:
            for rest in itertools.product(range(len(vecs)), repeat=size - 1):
                costs = [vecs[f]] + [vecs[k] for k in rest]
                inds = _mk(costs)
                sel.fast_nondominated_sorting(inds)
                judge(ctx, costs, inds, "tiny")
                ctx.count("cases")
                n += 1
        ctx.sample({"workload": name, "size": size, "populations": n, "alphabet": vecs[:4] + ["..."]}, "tiny", 1)
    elif name == "generated":
        r = ctx.rng("g", params["seed"])
        size = r.randint(1, params["max_size"])
        m = r.choice([1, 2, 2, 3, 3, 4, 5, 6, 8])
        costs = gen.population_costs(r, size, m)
        base_rank = None
        for shuffle in range(3):
            order = list(range(len(costs)))
            r.shuffle(order)
            cs = [costs[k] for k in order]
            inds = _mk(cs, r)
            if len({type(i) for i in inds}) > 1:
                ctx.count("populations_mixing_individual_classes")
            sel.fast_nondominated_sorting(inds)
            got = judge(ctx, cs, inds, "generated")
            # rank per cost vector must not depend on order
            rk = {}
            for c, g in zip(cs, got):
                rk.setdefault(tuple(c), set()).add(g)
            ctx.count("order_independence_checks")
            if base_rank is None:
                base_rank = rk
            elif rk != base_rank:
                ctx.violation("sort/order_dependent", "rank of a cost vector depends on the input order",
                              {"costs": cs})
            ctx.count("cases")
        # the same objects sorted again (other order, some costs changed, some members dropped): bookkeeping left over
        # from the previous call must not leak into the new ranks
        for again in range(2):
            keep = [i for i in inds if r.random() < 0.8] or inds[:1]
            r.shuffle(keep)
            for i in keep:
                if r.random() < 0.3:
                    i.costs_signed = gen.cost_vector(r, m, "grid") + [i.costs_signed[-1]]
            cs = [list(i.costs_signed) for i in keep]
            sel.fast_nondominated_sorting(keep)
            judge(ctx, cs, keep, "resorted")
            ctx.count("resort_checks")
            # the SAME list object again, one member replaced in place by a copy that carries the same id (what deepcopy, a
            # pickle round trip or from_dict produce) and other costs
            import copy as _copy
            k_ = r.randrange(len(keep))
            twin = _copy.deepcopy(keep[k_])
            twin.costs_signed = gen.cost_vector(r, m, "grid") + [twin.costs_signed[-1]]
            keep[k_] = twin
            cs = [list(i.costs_signed) for i in keep]
            sel.fast_nondominated_sorting(keep)
            judge(ctx, cs, keep, "resorted_same_list")
            ctx.count("resort_checks")
        ctx.sample({"size": size, "m": m, "costs": costs[:6], "ranks": oracles.ranks(costs)[:6]}, "generated")
    elif name == "insitu":
        from artap.operators import Selector
        r = ctx.rng("is", params["seed"])
        setup = insitu.random_setup(r, algo=params["algo"], max_N=14, max_G=6,
                                    families=["unit", "mixed", "neg", "asym"])
        pt = Patches()

        def mk(orig):
            def fast_nondominated_sorting(self, individuals, *a, **kw):
                snap = [list(i.costs_signed) for i in individuals]
                members = list(individuals)
                res = orig(self, individuals, *a, **kw)
                ids = [i.id for i in members]
                if len(set(ids)) == len(ids):
                    judge(ctx, snap, members, "insitu", {"algo": setup["algo"]})
                    ctx.count("insitu_sort_calls")
                else:
                    ctx.count("insitu_sort_calls_with_shared_ids_skipped")
                return res
            return fast_nondominated_sorting
        pt.wrap_attr(Selector, "fast_nondominated_sorting", mk)
        try:
            p, a, err = insitu.run_one(setup)
        finally:
            pt.restore()
        ctx.count("insitu_runs")
        if err is not None:
            ctx.count("insitu_runs_aborted")
        ctx.count("cases")


def requirements(ctx):
    ctx.require("sort_calls", 500)
    ctx.require("insitu_sort_calls", 10)
    ctx.require("order_independence_checks", 50)
    ctx.require("resort_checks", 50)
