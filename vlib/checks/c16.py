"""C16 — multi-objective benchmark identities (DTLZ1-4, ZDT1, bi-objective)."""
import math

import numpy as np

from .. import hooks, oracles

PID = "C16"
LEVEL = "exploration"
RULE = ("random box points (position variables also at 0, 1 and 1e-6 from either end, near 1 for DTLZ4's 100th power), "
        "m=2..6, dimension m+9 for DTLZ2-4 and k=1..12 for DTLZ1, Python floats and numpy.float64: sum/norm identities with an "
        "independently recomputed distance function g, ZDT1 and bi-objective identities, non-negativity; one object per family "
        "over 20000 (thorough 70000) evaluations with sentinel points re-evaluated every 4096. non-trivial = point "
        "with at least one position variable != 0.5; distinct by (family, m, point)")
ASSUMPTIONS = ["relative tolerance 1e-9 on the identities"]
SHARDS = {"quick": 1, "thorough": 16}
WATCHDOG = {"quick": 900, "thorough": 3000}
REL = 1e-9


_PROBS = {}


def cases(ctx):
    for fam in ("DTLZI", "DTLZII", "DTLZIII", "DTLZIV"):
        for m in range(2, 7):
            for rep in range(ctx.pick(20, 3600)):
                yield "dtlz", {"family": fam, "m": m, "seed": ctx.subseed(fam, m, rep), "points": ctx.pick(150, 400)}
    for fam in ("DTLZI", "DTLZII", "DTLZIII", "DTLZIV", "ZDT1", "BiObjectiveTestProblem"):
        for rep in range(ctx.pick(3, 60)):
            yield "threads", {"family": fam, "seed": ctx.subseed("th", fam, rep)}
    for fam in ("DTLZI", "DTLZII", "DTLZIII", "DTLZIV"):
        for rep in range(ctx.pick(6, 300)):
            yield "siblings", {"family": fam, "seed": ctx.subseed("sib", fam, rep)}
    for fam in ("DTLZI", "DTLZII", "DTLZIII", "DTLZIV", "ZDT1", "BiObjectiveTestProblem"):
        for rep in range(ctx.pick(1, 4)):
            yield "long_history", {"family": fam, "seed": ctx.subseed("lh", fam, rep), "points": ctx.pick(20000, 70000)}
    for rep in range(ctx.pick(40, 9600)):
        yield "zdt1", {"seed": ctx.subseed("z", rep), "points": ctx.pick(300, 600)}
        yield "biobj", {"seed": ctx.subseed("b", rep), "points": ctx.pick(300, 600)}


def posval(r, fam):
    c = r.random()
    if c < 0.08:
        return 0.0
    if c < 0.16:
        return 1.0
    if c < 0.22:
        return 1e-6
    if c < 0.28:
        return 1.0 - 1e-6
    if c < 0.34:
        return 0.5
    if fam == "DTLZIV" and c < 0.7:
        return 1.0 - 10.0 ** r.uniform(-4, -1)   # x**100 is only non-trivial close to 1
    return r.random()


def g_dtlz1(tail):
    return 100.0 * (len(tail) + sum((y - 0.5) ** 2 - math.cos(20.0 * math.pi * (y - 0.5)) for y in tail))


def g_dtlz2(tail):
    return sum((y - 0.5) ** 2 for y in tail)


def run_case(ctx, name, params):
    from artap import benchmark_pareto as bp
    from artap.individual import Individual
    r = ctx.rng(name, params["seed"])

    reuse = {}
    kept = {}

    def ev(prob, x, as_np, fam):
        if as_np is True:
            as_np = np.float64
        vec = [as_np(v) for v in x] if as_np else list(x)
        if as_np:
            ctx.count("evaluations_with_numpy_" + as_np.__name__)
        try:
            # half of the points are evaluated on an Individual object that was evaluated before with another vector
            # (re-assigned or updated in place), as the swarm algorithms do with their particles
            key = (fam, len(vec))
            old = reuse.get(key)
            if old is not None and r.random() < 0.5:
                ind = old
                if r.random() < 0.5:
                    ind.vector = vec
                else:
                    for i_, v_ in enumerate(vec):
                        ind.vector[i_] = v_
                ctx.count("re_evaluations_of_a_moved_individual")
            else:
                ind = Individual(vec)
                reuse[key] = ind
            if r.random() < 0.25:
                # a design whose vector is a numpy array (CMA-ES / CEM style generators build such designs), evaluated twice:
                # evaluation must not write into the design, and the second answer must be the first
                ind = Individual(np.array([float(v) for v in x], dtype=float))
                before = [float(v) for v in ind.vector]
                first = [float(v) for v in prob.evaluate(ind)]
                ctx.count("numpy_array_designs_evaluated_twice")
                if [float(v) for v in ind.vector] != before:
                    ctx.violation("%s/design_modified_by_evaluate" % fam, "%s.evaluate changed the vector of the design it was given" % fam,
                                  {"before": before, "after": [float(v) for v in ind.vector]})
                    return None
                second = [float(v) for v in prob.evaluate(ind)]
                if second != first:
                    ctx.violation("%s/second_evaluation_differs" % fam, "evaluating the same design twice gives %r then %r" % (first, second),
                                  {"x": before})
                    return None
            res = prob.evaluate(ind)
            out = [float(v) for v in res]
            # what an earlier call returned belongs to that call (it is stored as the design's costs): a later evaluation on the
            # same problem object must not change it
            prev = kept.get(id(prob))
            if prev is not None:
                ctx.count("earlier_results_rechecked_after_a_later_evaluation")
                try:
                    now = [float(v) for v in prev[1]]
                except Exception:
                    now = None
                if now != prev[2]:
                    ctx.violation("%s/earlier_result_changed" % fam, "the objective vector returned for an earlier point changed when another "
                                  "point was evaluated on the same problem object (was %r, now %r)" % (prev[2], now), {"earlier_x": prev[3]})
                    return None
            kept[id(prob)] = (prob, res, list(out), [float(v) for v in x])
        except Exception as e:
            ctx.violation("%s/exception" % fam, "%s.evaluate raised %r on a box point" % (fam, e), {"x": x, "numpy": getattr(as_np, "__name__", as_np)})
            return None
        if any(not math.isfinite(v) for v in out):
            ctx.violation("%s/not_finite" % fam, "%s returned a non-finite objective" % fam, {"x": x, "f": out})
            return None
        # single-precision inputs give single-precision angles (float32(pi/2) lies above pi/2): zero up to that precision
        neg_tol = 1e-12 if as_np is not np.float32 else 2e-4 * max(1.0, max(abs(v) for v in out))
        if any(v < -neg_tol for v in out):
            ctx.violation("%s/negative_objective" % fam, "%s returned a negative objective on the box" % fam, {"x": x, "f": out})
            return None
        ctx.count("nonnegativity_checks")
        return out

    if name == "dtlz":
        fam, m = params["family"], params["m"]
        for _ in range(params["points"]):
            if fam == "DTLZI":
                k = r.randint(1, 12)
                n = m + k - 1
            else:
                k = 10
                n = m + 9
            prob = _PROBS.get((fam, n, m))
            if prob is None:
                prob = _PROBS[(fam, n, m)] = hooks.tame(getattr(bp, fam)(dimension=n, m=m))
            dist_mode = r.choice(["rand", "rand", "half", "edge"])
            x = [posval(r, fam) for _ in range(m - 1)]
            for _j in range(k):
                x.append(r.random() if dist_mode == "rand" else 0.5 if dist_mode == "half" else r.choice([0.0, 1.0, 0.5]))
            as_np = r.choice([False, False, False, False, np.float64, np.float64, np.longdouble, np.float32])
            rel = REL
            if as_np is np.float32:
                # single precision: the point is the float32-representable one, and the identities hold to single precision
                x = [float(np.float32(v)) for v in x]
                rel = 2e-4
            f = ev(prob, x, as_np, fam)
            ctx.count("cases")
            if f is None:
                return
            tail = x[n - k:]
            wit = lambda: {"family": fam, "m": m, "n": n, "x": x, "f": f}
            if len(f) != m:
                ctx.violation("%s/objective_count" % fam, "%d objectives for m=%d" % (len(f), m), wit())
                return
            if any(abs(v - 0.5) > 1e-12 for v in x[:m - 1]):
                ctx.nontrivial((fam, m, tuple(x)))
            if fam == "DTLZI":
                g = g_dtlz1(tail)
                exp = 0.5 * (1 + g)
                got = sum(f)
                ctx.count("dtlz1_sum_checks")
                if not oracles.close(got, exp, rel, 1e-9 if rel == REL else 1e-4):
                    ctx.violation("DTLZI/sum_identity", "objectives sum to %r, (1+g)/2 is %r" % (got, exp), wit())
                    return
            else:
                g = g_dtlz2(tail) if fam in ("DTLZII", "DTLZIV") else g_dtlz1(tail)
                exp = 1 + g
                got = math.sqrt(sum(v * v for v in f))
                ctx.count("dtlz234_norm_checks")
                if not oracles.close(got, exp, rel, 1e-9 if rel == REL else 1e-4):
                    ctx.violation("%s/norm_identity" % fam, "objective vector has norm %r, 1+g is %r" % (got, exp), wit())
                    return
            ctx.sample({"family": fam, "m": m, "x": x[:4] + ["..."], "f": f}, fam, 1)
    elif name == "siblings":
        # several problem objects of one family alive at once (different objective counts and dimensions), created in one order and
        # evaluated in another, again and again: what one of them answers never depends on which sibling was created or used last
        fam = params["family"]
        specs = []
        for _ in range(r.randint(2, 5)):
            m = r.randint(2, 6)
            k = r.randint(1, 12) if fam == "DTLZI" else 10
            specs.append((m, k, m + k - 1))
        probs = [(m, k, n, hooks.tame(getattr(bp, fam)(dimension=n, m=m))) for m, k, n in specs]
        for _round in range(3):
            order = list(range(len(probs)))
            r.shuffle(order)
            for i_ in order:
                m, k, n, prob = probs[i_]
                for _ in range(4):
                    x = [posval(r, fam) for _ in range(m - 1)] + [r.choice([0.5, r.random(), r.random()]) for _ in range(k)]
                    f = ev(prob, x, False, fam)
                    ctx.count("sibling_evaluations")
                    if f is None:
                        return
                    wit = lambda: {"family": fam, "m": m, "n": n, "x": x, "f": f, "siblings": specs}
                    if len(f) != m:
                        ctx.violation("%s/objective_count" % fam, "%d objectives for m=%d (other problem objects of the family are alive)"
                                      % (len(f), m), wit())
                        return
                    tail = x[n - k:]
                    if fam == "DTLZI":
                        okk = oracles.close(sum(f), 0.5 * (1 + g_dtlz1(tail)), REL, 1e-9)
                    else:
                        g = g_dtlz2(tail) if fam in ("DTLZII", "DTLZIV") else g_dtlz1(tail)
                        okk = oracles.close(math.sqrt(sum(v * v for v in f)), 1 + g, REL, 1e-9)
                    if not okk:
                        ctx.violation("%s/identity_with_siblings" % fam, "%s violates its defining identity while other problem objects of the "
                                      "family are alive" % fam, wit())
                        return
            if _round == 1 and r.random() < 0.5:
                m = r.randint(2, 6)
                probs.append((m, 10 if fam != "DTLZI" else 3, m + (9 if fam != "DTLZI" else 2),
                              hooks.tame(getattr(bp, fam)(dimension=m + (9 if fam != "DTLZI" else 2), m=m))))
        ctx.nontrivial(("sib", fam, params["seed"]))
        ctx.count("cases")
    elif name == "long_history":
        # one benchmark object over a long run (an optimisation evaluates tens of thousands of designs on one problem object): a few
        # sentinel points are evaluated first and again every 4096 evaluations and at the end -- every answer must be the first one
        fam = params["family"]
        m = 3 if fam.startswith("DTLZ") else 2
        n = {"DTLZI": 7, "ZDT1": 6, "BiObjectiveTestProblem": 2}.get(fam, m + 9)
        if fam.startswith("DTLZ"):
            prob = hooks.tame(getattr(bp, fam)(dimension=n, m=m))
        else:
            prob = hooks.tame(getattr(bp, fam)())
            n = len(prob.parameters)
        box = [tuple(q["bounds"]) for q in prob.parameters]
        mk = lambda: [lb + r.random() * (ub - lb) for lb, ub in box]
        sentinels = [mk() for _ in range(4)] + [[(lb + ub) / 2 for lb, ub in box], [lb for lb, ub in box], [ub for lb, ub in box]]
        first = []
        for x in sentinels:
            first.append([float(v) for v in prob.evaluate(Individual(list(x)))])
        total = params["points"]
        for k in range(total):
            x = mk()
            f = [float(v) for v in prob.evaluate(Individual(x))]
            ctx.count("long_history_evaluations")
            if k % 16 == 0:
                if fam == "DTLZI":
                    okk = oracles.close(sum(f), 0.5 * (1 + g_dtlz1(x[m - 1:])), REL, 1e-9)
                elif fam.startswith("DTLZ"):
                    g = g_dtlz2(x[m - 1:]) if fam in ("DTLZII", "DTLZIV") else g_dtlz1(x[m - 1:])
                    okk = oracles.close(math.sqrt(sum(v * v for v in f)), 1 + g, REL, 1e-9)
                elif fam == "ZDT1":
                    g = 1 + 9 * sum(x[1:]) / (n - 1)
                    okk = oracles.close(f[1], g * (1 - math.sqrt(f[0] / g)), REL, 1e-9) and oracles.close(f[0], x[0], REL, 1e-12)
                else:
                    okk = oracles.close(f[0] * f[1], 1 + x[1], REL, 1e-9)
                if not okk or any(v < -1e-12 or not math.isfinite(v) for v in f):
                    ctx.violation("%s/identity_in_long_history" % fam, "%s violates its defining identity at evaluation %d on one object" % (fam, k),
                                  {"x": x, "f": f})
                    return
            if k % 4096 == 4095 or k == total - 1:
                for x0, f0 in zip(sentinels, first):
                    f1 = [float(v) for v in prob.evaluate(Individual(list(x0)))]
                    ctx.count("sentinel_re_evaluations")
                    if f1 != f0:
                        ctx.violation("%s/sentinel_changed_in_long_history" % fam, "%s answers %r for a point it answered %r before (%d evaluations "
                                      "of other points on the same object in between)" % (fam, f1, f0, k + 1), {"x": x0})
                        return
        ctx.nontrivial(("lh", fam, params["seed"]))
        ctx.count("cases")
    elif name == "threads":
        # one benchmark object evaluated by three threads at once (max_processes>1 does that), statement-level yields inside the
        # benchmark code: every call must return the objectives of ITS point
        import threading
        from .. import sched
        fam = params["family"]
        m = r.randint(2, 5)
        if fam.startswith("DTLZ"):
            n = m + 9 if fam != "DTLZI" else m + r.randint(0, 6)
            prob = hooks.tame(getattr(bp, fam)(dimension=n, m=m))
        else:
            prob = hooks.tame(getattr(bp, fam)())
            n = len(prob.parameters)
        box = [q["bounds"] for q in prob.parameters]
        pts = [[lb + r.random() * (ub - lb) for lb, ub in box] for _ in range(30)]
        serial = [[float(v) for v in prob.evaluate(Individual(list(q)))] for q in pts]
        got = [None] * len(pts)

        def work(k0):
            for k in range(k0, len(pts), 3):
                for _rep in range(2):
                    got[k] = [float(v) for v in prob.evaluate(Individual(list(pts[k])))]
        inj = sched.YieldInjector(params["seed"], prob=0.4, modules=("artap.benchmark_pareto", "artap.benchmark_functions"))
        inj.start()
        try:
            ths = [threading.Thread(target=work, args=(k0,)) for k0 in range(3)]
            for t in ths:
                t.start()
            for t in ths:
                t.join()
        finally:
            inj.stop()
        ctx.count("threaded_evaluations", 2 * len(pts))
        ctx.count("line_yields_inside_benchmarks", inj.yields)
        for k in range(len(pts)):
            if got[k] != serial[k]:
                ctx.violation("%s/threaded_value" % fam, "%s returned %r for a point whose objectives are %r when three threads evaluate "
                              "different points on the same object" % (fam, got[k], serial[k]), {"x": pts[k]})
                return
        ctx.nontrivial(("th", fam, params["seed"]))
        ctx.count("cases")
    elif name == "zdt1":
        prob = hooks.tame(bp.ZDT1())
        n = len(prob.parameters)
        for _ in range(params["points"]):
            x = [r.choice([0.0, 1.0, 1e-6, r.random(), r.random()]) for _ in range(n)]
            f = ev(prob, x, r.choice([False, False, np.float64, np.longdouble]), "ZDT1")
            ctx.count("cases")
            if f is None:
                return
            g = 1.0 + 9.0 * (sum(x[1:]) / (n - 1))
            exp2 = g * (1.0 - math.sqrt(f[0] / g))
            ctx.count("zdt1_checks")
            ctx.nontrivial(("zdt1", tuple(x)))
            if len(f) != 2 or f[0] != x[0] or not oracles.close(f[1], exp2, REL, 1e-9):
                ctx.violation("ZDT1/identity", "f2=%r but g(1-sqrt(f1/g))=%r (g=%r)" % (f[1], exp2, g), {"x": x, "f": f})
                return
        ctx.sample({"family": "ZDT1", "x": x[:3] + ["..."], "f": f}, "zdt1", 1)
    elif name == "biobj":
        prob = hooks.tame(bp.BiObjectiveTestProblem())
        (l1, u1), (l2, u2) = [p["bounds"] for p in prob.parameters]
        for _ in range(params["points"]):
            x = [r.choice([l1, u1, l1 + r.random() * (u1 - l1)]), r.choice([l2, u2, l2 + r.random() * (u2 - l2)])]
            f = ev(prob, x, r.choice([False, False, np.float64, np.longdouble]), "BiObjective")
            ctx.count("cases")
            if f is None:
                return
            ctx.count("biobjective_checks")
            ctx.nontrivial(("bi", tuple(x)))
            if len(f) != 2 or not oracles.close(f[0] * f[1], 1 + x[1], REL, 1e-12):
                ctx.violation("BiObjective/identity", "f1*f2=%r but 1+x2=%r" % (f[0] * f[1], 1 + x[1]), {"x": x, "f": f})
                return
        ctx.sample({"family": "BiObjective", "x": x, "f": f}, "biobj", 1)


def requirements(ctx):
    ctx.require("dtlz1_sum_checks", 200)
    ctx.require("dtlz234_norm_checks", 600)
    ctx.require("zdt1_checks", 100)
    ctx.require("biobjective_checks", 100)
    ctx.require("re_evaluations_of_a_moved_individual", 500)
    ctx.require("threaded_evaluations", 300)
