"""C19 — surrogate wrapper returns true values unless predicting; exact accounting."""
from .. import hooks

PID = "C19"
LEVEL = "exploration"
RULE = ("random request histories (1..300 requests) x predict-hook scripts (value/None, hook absent) x train_step in "
        "{-1,1,2,3,5,10} x trained/untrained start, driven through problem.surrogate.evaluate and through Algorithm.evaluate, on a "
        "recording SurrogateModelPredict subclass, on the real SurrogateModelScikit with a stub regressor and on the pass-through "
        "SurrogateModelEval; after every request counters, training set, train calls and objective call log are compared with a "
        "reference model. non-trivial = history containing both predictions and true evaluations, or a retraining; distinct by "
        "(kind, train_step, hook script)")
ASSUMPTIONS = ["single-threaded requests (add_data appends x and y in two statements; threads are out of this property's scope)"]
SHARDS = {"quick": 1, "thorough": 16}
WATCHDOG = {"quick": 900, "thorough": 3000}


def cases(ctx):
    for i in range(ctx.pick(1500, 400000)):
        yield "history", {"seed": ctx.subseed("h", i), "kind": ["recording", "scikit_stub", "passthrough"][i % 3]}


class StubRegressor:
    def __init__(self):
        self.fits = 0
        self.next_score = 1.0

    def fit(self, x, y):
        self.fits += 1
        self.nx, self.ny = len(x), len(y)

    def score(self, x, y):
        return self.next_score

    def predict(self, xs, return_std=False):
        return [[0.0]]


def run_case(ctx, name, params):
    from artap.surrogate import SurrogateModelPredict, SurrogateModelEval
    from artap.individual import Individual
    from artap.algorithm import DummyAlgorithm
    r = ctx.rng("h", params["seed"])
    kind = params["kind"]
    n = r.randint(1, 4)
    nreq = r.choice([1, 2, 5, r.randint(1, 60), r.randint(1, 300)])
    hook_mode = r.choice(["absent", "always", "never", "random", "random", "late"])
    script = []
    for k in range(nreq):
        if hook_mode == "always":
            script.append(True)
        elif hook_mode == "never":
            script.append(False)
        elif hook_mode == "late":
            script.append(k > nreq // 2)
        else:
            script.append(r.random() < 0.5)
    old_script = list(script)        # what the first hook goes on doing, should anybody still ask it
    hook_calls = [0]
    hook_swapped = [False]
    hook_values = {}

    def predict_hook(individual):
        k = hook_calls[0]
        hook_calls[0] += 1
        if k < len(old_script) and old_script[k]:
            v = [float(100 + k)]
            hook_values[k] = v
            return v
        return None

    kw = dict(n=n, m=1, fn=lambda x: [sum(x) + 0.5])
    if hook_mode != "absent":
        kw["predict"] = predict_hook
    p = hooks.make_problem(**kw)
    train_step = r.choice([-1, 1, 2, 3, 5, 10])
    trained0 = r.random() < 0.5
    train_calls = [0]

    if kind == "recording":
        class Rec(SurrogateModelPredict):
            def train(self):
                train_calls[0] += 1
                self.trained = True

            def predict(self, x, *a):
                return None
        s = Rec(p)
        s.train_step = train_step
        s.trained = trained0
        s.regressor = object()
    elif kind == "scikit_stub":
        from artap.surrogate_scikit import SurrogateModelScikit
        s = SurrogateModelScikit(p)
        s.regressor = StubRegressor()
        s.train_step = train_step
        s.trained = trained0
    else:
        s = SurrogateModelEval(p)
        trained0 = True
    p.surrogate = s
    # a second surrogate model on another problem, alive at the same time and used in between (two optimisations in one process): the
    # accounting of one model never sees the other's requests
    sib = None
    if r.random() < 0.3:
        class Sib(SurrogateModelPredict):
            def train(self):
                self.trained = True

            def predict(self, x, *a):
                return None
        p2 = hooks.make_problem(n=n, m=1, fn=lambda x: [sum(x) - 7.0], predict=lambda individual: [42.0])
        sib = SurrogateModelEval(p2) if kind == "passthrough" else Sib(p2)
        if kind != "passthrough":
            sib.train_step = r.choice([1, 2, 3])
            sib.regressor = object()
        p2.surrogate = sib
        ctx.count("histories_with_a_second_surrogate_alive")
    if kind != "scikit_stub" and r.random() < 0.25:
        # the public statistics switch is about scores, not about accounting: the counters count whatever it says
        s.eval_stats = False
        ctx.count("histories_with_eval_stats_switched_off")
    # training data that is already there (add_data / read_from_data_store before the run): retraining is tied to the number of
    # true evaluations, not to the size of the training set
    preseed = []
    if kind != "passthrough" and r.random() < 0.5:
        for _ in range(r.randint(1, 7)):
            xv = [r.uniform(-1, 1) for _ in range(n)]
            yv = [sum(xv) + 0.5]
            s.add_data(xv, yv)
            preseed.append((xv, yv))
    via_algorithm = r.random() < 0.3
    alg = DummyAlgorithm(p) if via_algorithm else None

    # reference model
    M = {"eval": 0, "pred": 0, "x": [list(a) for a, b in preseed], "y": [list(b) for a, b in preseed], "train": 0,
         "trained": trained0, "calls": 0}
    saw_pred = saw_eval = saw_train = False
    wit = lambda k: {"kind": kind, "train_step": train_step, "preseeded_samples": len(preseed), "trained_at_start": trained0, "hook": hook_mode,
                     "script": script[:40], "request": k, "via_algorithm": via_algorithm,
                     "observed": {"eval_counter": s.eval_counter, "predict_counter": s.predict_counter,
                                  "x_data": len(s.x_data), "y_data": len(s.y_data),
                                  "train_calls": train_calls[0] if kind == "recording" else getattr(s.regressor, "fits", None),
                                  "objective_calls": len(p.calls)},
                     "model": {k2: (v if not isinstance(v, list) else len(v)) for k2, v in M.items()}}
    for k in range(nreq):
        vec = [r.uniform(-1, 1) for _ in range(n)]
        ind = Individual(vec)
        if not via_algorithm and r.random() < 0.15:
            # a request for a design object that went through the job pipeline earlier (it is marked evaluated and carries costs,
            # possibly of an older model state): a request is a request -- the wrapper answers and counts it like any other
            ind.costs = [r.uniform(-9, 9)]
            ind.costs_signed = [ind.costs[0], True]
            ind.state = Individual.State.EVALUATED
            ctx.count("requests_with_an_already_evaluated_design_object")
        if sib is not None and r.random() < 0.5:
            sib.evaluate(Individual([r.uniform(-1, 1) for _ in range(n)]))
        if hook_mode != "absent" and not hook_swapped[0] and k > 0 and r.random() < 0.04:
            # the user replaces the predict hook during the run by one that declines everything: the decisions of the hook that is
            # installed NOW count
            def declining_hook(individual):
                hook_calls[0] += 1
                return None
            p.predict = declining_hook
            for j_ in range(hook_calls[0], len(script)):
                script[j_] = False
            script.extend([False] * (nreq + 5))
            hook_swapped[0] = True
            ctx.count("histories_with_the_predict_hook_replaced")
        hk_before = hook_calls[0]
        if kind == "scikit_stub":
            s.regressor.next_score = r.choice([1.0, 0.9, 0.2, -3.0, 0.5])     # how well the regressor fits is not the wrapper's business
        try:
            if via_algorithm:
                alg.evaluate([ind])
                val = ind.costs
            else:
                val = s.evaluate(ind)
        except Exception as e:
            ctx.violation("surrogate/exception", "evaluate raised %r" % e, wit(k))
            return
        ctx.count("requests")
        # model step
        if kind == "passthrough":
            M["eval"] += 1
            M["calls"] += 1
            expect_val = [sum(vec) + 0.5]
            predicted = False
        else:
            hook_consulted = M["trained"] and hook_mode != "absent"
            predicted = hook_consulted and script[hk_before] if hook_consulted and hk_before < len(script) else False
            if hook_consulted != (hook_calls[0] == hk_before + 1):
                ctx.violation("surrogate/hook_consultation", "predict hook %s although the model is %strained"
                              % ("consulted" if hook_calls[0] > hk_before else "not consulted", "" if M["trained"] else "un"),
                              wit(k))
                return
            if predicted:
                M["pred"] += 1
                expect_val = hook_values[hk_before]
                saw_pred = True
            else:
                M["eval"] += 1
                M["calls"] += 1
                M["x"].append(list(vec))
                expect_val = [sum(vec) + 0.5]
                M["y"].append(expect_val)
                saw_eval = True
                if train_step != -1 and M["eval"] % train_step == 0:
                    M["train"] += 1
                    M["trained"] = True
                    saw_train = True
        # compare
        ctx.count("post_request_checks")
        if list(val) != list(expect_val):
            ctx.violation("surrogate/value/" + ("prediction" if predicted else "true_evaluation"),
                          "returned %r, expected %r (%s)" % (val, expect_val, "hook value" if predicted else "objective value"), wit(k))
            return
        if len(p.calls) != M["calls"]:
            ctx.violation("surrogate/objective_calls", "objective called %d times, model says %d" % (len(p.calls), M["calls"]), wit(k))
            return
        if s.eval_counter != M["eval"] or s.predict_counter != M["pred"]:
            ctx.violation("surrogate/counters", "eval/predict counters %d/%d, model %d/%d"
                          % (s.eval_counter, s.predict_counter, M["eval"], M["pred"]), wit(k))
            return
        if s.eval_counter + s.predict_counter != k + 1:
            ctx.violation("surrogate/counters_sum", "counters add up to %d after %d requests"
                          % (s.eval_counter + s.predict_counter, k + 1), wit(k))
            return
        if kind != "passthrough":
            gx = [list(v) for v in s.x_data]
            gy = [list(v) for v in s.y_data]
            if gx != M["x"] or gy != M["y"]:
                ctx.violation("surrogate/training_set", "training set (%d, %d entries) differs from the model (%d pairs, in order)"
                              % (len(gx), len(gy), len(M["x"])), wit(k))
                return
            tc = train_calls[0] if kind == "recording" else s.regressor.fits
            if tc != M["train"]:
                ctx.violation("surrogate/retraining", "model retrained %d times, expected %d (train_step %d, %d true evaluations)"
                              % (tc, M["train"], train_step, M["eval"]), wit(k))
                return
            if bool(s.trained) != M["trained"]:
                ctx.violation("surrogate/trained_flag", "trained flag is %r, model says %r" % (s.trained, M["trained"]), wit(k))
                return
    if (saw_pred and saw_eval) or saw_train:
        ctx.nontrivial((kind, train_step, trained0, hook_mode, tuple(script)))
    ctx.count("cases")
    ctx.sample({"kind": kind, "train_step": train_step, "trained_at_start": trained0, "hook": hook_mode, "requests": nreq,
                "evals": M["eval"], "predictions": M["pred"], "retrainings": M["train"]}, kind)


def requirements(ctx):
    ctx.require("post_request_checks", 3000)
