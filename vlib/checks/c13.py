"""C13 — factorial and screening designs: full factorial, Plackett-Burman, Box-Behnken, GSD."""
import collections
import itertools
import math

from .. import gen

PID = "C13"
LEVEL = "exploration"
RULE = ("full-factorial generators over random level lists / bounds -- levels as floats, ints, integers above 2**53, strings, bools "
        "and mixtures, compared type-aware -- (multiset equality with itertools.product); Plackett-Burman "
        "for every factor count 1..23 (exhaustive) with random bounds (incl. neighbouring integers above 2**53): level set, run count, balance, pairwise orthogonality; "
        "Box-Behnken n=3..9: exact corner multiset; GSD for all level lists (2..6 levels, 2..5 factors) x reductions 2..5: subset, "
        "duplicate-free, complementary designs disjoint and covering. non-trivial = design with >=2 factors; distinct by "
        "(generator, levels/bounds, reduction)")
ASSUMPTIONS = ["documented 'reduction too large' ValueErrors of build_gsd are counted, not judged",
               "complementary GSD designs are checked on doe.build_gsd because GSDGenerator.generate cannot return them (known finding)"]
SHARDS = {"quick": 1, "thorough": 16}
WATCHDOG = {"quick": 900, "thorough": 3000}


def P(bxs):
    return [{"name": "p%d" % i, "bounds": list(b)} for i, b in enumerate(bxs)]


def cases(ctx):
    for i in range(ctx.pick(600, 300000)):
        yield "fullfact", {"seed": ctx.subseed("f", i)}
    # one factor with very many levels (a finely resolved parameter next to one or two switches): level counts around the widths
    # of the integer types a vectorised implementation might pick for its index matrix
    big = [255, 256, 257, 32767, 32768, 32769, 65535, 65536, 65537]
    rb = ctx.rng("biglevels")
    big += [rb.randint(258, 32766), rb.randint(32770, 65534), rb.randint(32770, 65534)] + ([rb.randint(65538, 200000) for _ in range(3)] if not ctx.quick else [])
    for cnt in big:
        yield "fullfact_many_levels", {"count": cnt, "seed": ctx.subseed("big", cnt)}
    for k in range(1, 24):
        for rep in range(ctx.pick(4, 900)):
            yield "pb", {"k": k, "seed": ctx.subseed("pb", k, rep)}
    for n in range(3, ctx.pick(8, 10) + 1):
        for rep in range(ctx.pick(4, 600)):
            yield "bb", {"n": n, "seed": ctx.subseed("bb", n, rep)}
    # GSD: all level lists with 2..6 levels, 2..(4|5) factors, product<=5000, reductions 2..5
    maxf = ctx.pick(3, 5)
    for nf in range(2, maxf + 1):
        for levels in itertools.combinations_with_replacement(range(2, 7), nf):
            if math.prod(levels) > 5000:
                continue
            for red in range(2, 6):
                yield "gsd", {"levels": list(levels), "reduction": red}
    for i in range(ctx.pick(160, 60000)):
        yield "gsd_generator", {"seed": ctx.subseed("gg", i)}
    for i in range(ctx.pick(150, 30000)):
        yield "shared_parameters", {"seed": ctx.subseed("sp", i)}


def run_case(ctx, name, params):
    from artap import operators, doe
    if name == "fullfact_many_levels":
        r = ctx.rng("big", params["seed"])
        cnt = params["count"]
        others = r.choice([[], [2], [2], [3], [2, 2]])
        pos = r.randrange(len(others) + 1)
        counts = others[:pos] + [cnt] + others[pos:]
        start = r.randint(-5, 5)
        levels = [[start + 0.5 * i for i in range(c)] if c == cnt else [float(10 * i + 1) for i in range(c)] for c in counts]
        g = operators.FullFactorLevelsGenerator(P([[0.0, 1.0]] * len(counts)))
        g.init([list(v) for v in levels])
        wit = lambda: {"level_counts": counts}
        try:
            vecs = g.generate()
        except Exception as e:
            ctx.violation("fullfact/exception", "generate raised %r" % e, wit())
            return
        ctx.count("fullfact_designs")
        ctx.count("fullfact_designs_with_a_factor_of_more_than_255_levels")
        exp = collections.Counter(itertools.product(*levels))
        got = collections.Counter(tuple(v) for v in vecs)
        if got != exp:
            miss = list((exp - got).keys())[:3]
            extra = list((got - exp).keys())[:3]
            ctx.violation("fullfact/combinations", "design is not every combination exactly once (missing %s, extra/repeated %s)"
                          % (miss, extra), wit())
            return
        ctx.nontrivial(("ffbig", tuple(counts)))
        ctx.count("cases")
        return
    if name == "fullfact":
        r = ctx.rng("f", params["seed"])
        n = r.randint(1, 6)
        mode = r.choice(["bounds", "center", "levels"])
        bxs = gen.boxes(r, n)
        if mode == "levels":
            values = []
            for _ in range(n):
                k = r.randint(1, 5)
                values.append(r.sample([round(r.uniform(-50, 50), 3) for _ in range(12)] + list(range(-3, 4)), k)
                              if r.random() < 0.7 else sorted(r.sample(range(-20, 20), k)))
                values[-1] = list(dict.fromkeys(values[-1]))
            kind_ = r.choice(["numbers", "numbers", "bigint", "strings", "mixed", "bools"])
            if kind_ == "bigint":       # exact integers beyond 2**53 next to float levels
                values[0] = [2 ** 53 + k_ for k_ in range(len(values[0]))]
                if n > 1:
                    values[1] = [x + 0.5 for x in range(len(values[1]))]
            elif kind_ == "strings":    # categorical levels
                values[r.randrange(n)] = ["low", "mid", "high", "max", "min"][:max(1, len(values[0]))]
            elif kind_ == "mixed":
                values[r.randrange(n)] = [0, "a", 2.5, None, (1, 2)][:r.randint(1, 5)]
            elif kind_ == "bools":
                values[r.randrange(n)] = [False, True]
            ctx.count("fullfact_level_kind_" + kind_)
            g = operators.FullFactorLevelsGenerator(P(bxs))
            g.init([list(v) for v in values])
            levels = values
        else:
            g = operators.FullFactorGenerator(P(bxs))
            g.init(mode == "center")
            levels = [[lb, (lb + ub) / 2.0, ub] if mode == "center" else [lb, ub] for lb, ub in bxs]
        wit = lambda: {"mode": mode, "levels": levels}
        try:
            vecs = g.generate()
        except Exception as e:
            ctx.violation("fullfact/exception", "generate raised %r" % e, wit())
            return
        ctx.count("fullfact_designs")
        tk = lambda row: tuple((type(x).__name__ if not isinstance(x, (int, float)) or isinstance(x, bool) else "num", x) for x in row)
        exp = collections.Counter(tk(row) for row in itertools.product(*levels))
        got = collections.Counter(tk(v) for v in vecs)
        if got != exp:
            miss = list((exp - got).keys())[:3]
            extra = list((got - exp).keys())[:3]
            ctx.violation("fullfact/combinations", "design is not every combination exactly once (missing %s, extra/repeated %s)"
                          % (miss, extra), wit())
            return
        if n >= 2:
            ctx.nontrivial(("ff", mode, tuple(map(tuple, levels))))
        ctx.count("cases")
        ctx.sample({"generator": "fullfact/" + mode, "levels": levels[:3], "rows": len(vecs)}, "fullfact")
    elif name == "pb":
        r = ctx.rng("pb", params["seed"])
        k = params["k"]
        bxs = gen.boxes(r, k)
        if r.random() < 0.15:
            bxs[r.randrange(k)] = [2 ** 53 + 1, 2 ** 53 + 3]      # exact integer bounds that a float cannot hold
        g = operators.PlackettBurmanGenerator(P(bxs))
        wit = lambda: {"k": k, "bounds": bxs[:4], "entry": entry}
        entry = "generator"
        if r.random() < 0.35:
            # the builder itself, with level ranges as its documentation allows them: "only min and max values of the range are
            # required" -- a range given with intermediate values still means its two end points
            from artap import doe
            entry = "doe.build_plackett_burman"
            rng_ = {}
            for j_, (lb, ub) in enumerate(bxs):
                mids_ = sorted(lb + r.random() * (ub - lb) for _ in range(r.choice([0, 0, 1, 2, 4]))) if isinstance(lb, float) else []
                rng_["f%02d" % j_] = [lb] + mids_ + [ub]
            ctx.count("pb_designs_from_the_builder_with_level_ranges")

            class _G:
                @staticmethod
                def generate():
                    return [list(row) for row in doe.build_plackett_burman(rng_)]
            g = _G()
        try:
            vecs = g.generate()
        except Exception as e:
            ctx.violation("pb/exception", "generate raised %r for %d factors" % (e, k), wit())
            return
        ctx.count("pb_designs")
        rows = 4 * (k // 4 + 1)
        if len(vecs) != rows:
            ctx.violation("pb/run_count", "%d runs for %d factors, expected %d" % (len(vecs), k, rows), wit())
            return
        cols = []
        for j, (lb, ub) in enumerate(bxs):
            col = [v[j] for v in vecs]
            if any(len(v) != k for v in vecs) or not set(col) <= {lb, ub}:
                ctx.violation("pb/levels", "column %d uses values other than the two bounds" % j, dict(wit(), column=col))
                return
            c = [1 if x == ub else 0 for x in col]
            ctx.count("pb_columns_checked")
            if sum(c) * 2 != rows:
                ctx.violation("pb/balance", "column %d is not balanced (%d high of %d)" % (j, sum(c), rows), wit())
                return
            cols.append(c)
        for a, b in itertools.combinations(range(k), 2):
            cnt = collections.Counter(zip(cols[a], cols[b]))
            ctx.count("pb_column_pairs_checked")
            if any(cnt[(x, y)] * 4 != rows for x in (0, 1) for y in (0, 1)):
                ctx.violation("pb/orthogonality", "columns %d and %d are not orthogonal: %s" % (a, b, dict(cnt)), wit())
                return
        if k >= 2:
            ctx.nontrivial(("pb", k, tuple(map(tuple, bxs))))
        ctx.count("cases")
        ctx.sample({"generator": "plackett-burman", "k": k, "rows": rows, "first_row": vecs[0][:5]}, "pb")
    elif name == "bb":
        r = ctx.rng("bb", params["seed"])
        n = params["n"]
        bxs = gen.boxes(r, n, r.choice(["unit", "neg", "mixed", "asym", "huge"]))
        g = operators.BoxBehnkenGenerator(P(bxs))
        wit = lambda: {"n": n, "bounds": bxs}
        try:
            vecs = g.generate()
        except Exception as e:
            ctx.violation("bb/exception", "generate raised %r for n=%d" % (e, n), wit())
            return
        ctx.count("bb_designs")
        mids = [(lb + ub) / 2 for lb, ub in bxs]
        exp = collections.Counter()
        for i, j in itertools.combinations(range(n), 2):
            for si in (0, 1):
                for sj in (0, 1):
                    row = list(mids)
                    row[i] = bxs[i][si]
                    row[j] = bxs[j][sj]
                    exp[tuple(row)] += 1
        exp[tuple(mids)] += 1
        got = collections.Counter(tuple(v) for v in vecs)
        if got != exp:
            ctx.violation("bb/structure", "design differs from {corners of every factor pair, others mid} + one centre run "
                          "(%d rows, expected %d; missing %s; extra %s)"
                          % (len(vecs), sum(exp.values()), list((exp - got).keys())[:2], list((got - exp).keys())[:2]), wit())
            return
        ctx.nontrivial(("bb", n, tuple(map(tuple, bxs))))
        ctx.count("cases")
        ctx.sample({"generator": "box-behnken", "n": n, "rows": len(vecs)}, "bb")
    elif name == "gsd":
        levels, red = params["levels"], params["reduction"]
        full = set(itertools.product(*[range(l) for l in levels]))
        wit = lambda: {"levels": levels, "reduction": red}
        try:
            d1 = doe.build_gsd(levels, red, 1)
        except ValueError as e:
            ctx.count("gsd_documented_value_errors")
            return
        except Exception as e:
            ctx.violation("gsd/exception", "build_gsd raised %r" % e, wit())
            return
        ctx.count("gsd_designs")
        rows = [tuple(int(x) for x in row) for row in d1]
        if len(set(rows)) != len(rows):
            ctx.violation("gsd/duplicates", "design contains repeated runs", wit())
            return
        if not set(rows) <= full:
            ctx.violation("gsd/not_subset", "design contains runs outside the full factorial", wit())
            return
        try:
            dn = doe.build_gsd(levels, red, red)
        except ValueError:
            ctx.count("gsd_documented_value_errors")
            return
        except Exception as e:
            ctx.violation("gsd/exception", "build_gsd(n=reduction) raised %r" % e, wit())
            return
        sets = [[tuple(int(x) for x in row) for row in d] for d in dn]
        ctx.count("gsd_complementary_families")
        if len(sets) != red:
            ctx.violation("gsd/complementary_count", "%d complementary designs for reduction %d" % (len(sets), red), wit())
            return
        allrows = [x for s in sets for x in s]
        if len(set(allrows)) != len(allrows):
            ctx.violation("gsd/complementary_overlap", "complementary designs are not pairwise disjoint", wit())
            return
        if set(allrows) != full:
            ctx.violation("gsd/complementary_cover", "complementary designs do not make up the full factorial "
                          "(%d of %d runs)" % (len(set(allrows)), len(full)), wit())
            return
        for nn in range(2, red):
            try:
                dk = doe.build_gsd(levels, red, nn)
            except ValueError:
                continue
            sk = [[tuple(int(x) for x in row) for row in d] for d in dk]
            ctx.count("gsd_partial_complementary_families")
            allk = [x for s_ in sk for x in s_]
            if len(sk) != nn or len(set(allk)) != len(allk) or not set(allk) <= full or sk != sets[:nn]:
                ctx.violation("gsd/complementary_partial", "%d complementary designs for reduction %d are not %d pairwise disjoint "
                              "subsets of the full factorial (the first %d of the complete family)" % (nn, red, nn, nn), wit())
                return
        ctx.nontrivial(("gsd", tuple(levels), red))
        ctx.count("cases")
        ctx.sample({"generator": "gsd", "levels": levels, "reduction": red, "rows": len(rows), "first": rows[:3]}, "gsd")
    elif name == "shared_parameters":
        # one parameter list (as a Problem owns it) serves a sequence of different generators: what one generator does with
        # the declared ranges must not leak into the next design
        import collections as _c
        r = ctx.rng("sp", params["seed"])
        n = r.randint(3, 6)
        bxs = gen.boxes(r, n, r.choice(["unit", "neg", "mixed", "asym"]))
        shared = P(bxs)
        seq = [r.choice(["bb", "pb", "ff", "ffc", "lhs", "halton", "bb"]) for _ in range(r.randint(2, 6))]
        for step, g in enumerate(seq):
            wit = lambda: {"sequence": seq[:step + 1], "bounds": bxs, "parameters_now": [q["bounds"] for q in shared]}
            try:
                if g == "bb":
                    vecs = operators.BoxBehnkenGenerator(shared).generate()
                elif g == "pb":
                    vecs = operators.PlackettBurmanGenerator(shared).generate()
                elif g in ("ff", "ffc"):
                    o = operators.FullFactorGenerator(shared)
                    o.init(g == "ffc")
                    vecs = o.generate()
                elif g == "lhs":
                    o = operators.LHSGenerator(shared)
                    o.init(5)
                    vecs = o.generate()
                else:
                    o = operators.HaltonGenerator(shared)
                    o.init(5)
                    vecs = o.generate()
            except Exception as e:
                ctx.violation("shared_parameters/exception", "%s raised %r after %s on the same parameter list" % (g, e, seq[:step]), wit())
                return
            ctx.count("designs_on_shared_parameters")
            got = _c.Counter(tuple(float(x) for x in v) for v in vecs)
            if g == "bb":
                mids = [(lb + ub) / 2 for lb, ub in bxs]
                exp = _c.Counter()
                for i, j in itertools.combinations(range(n), 2):
                    for si in (0, 1):
                        for sj in (0, 1):
                            row = list(mids)
                            row[i] = bxs[i][si]
                            row[j] = bxs[j][sj]
                            exp[tuple(row)] += 1
                exp[tuple(mids)] += 1
                ok = got == exp
            elif g in ("ff", "ffc"):
                lv = [[lb, (lb + ub) / 2.0, ub] if g == "ffc" else [lb, ub] for lb, ub in bxs]
                ok = got == _c.Counter(itertools.product(*lv))
            elif g == "pb":
                ok = len(vecs) == 4 * (n // 4 + 1) and all(set(v[j] for v in vecs) == {bxs[j][0], bxs[j][1]} for j in range(n))
            else:
                ok = len(vecs) == 5 and all(bxs[j][0] - 1e-9 <= v[j] <= bxs[j][1] + 1e-9 for v in vecs for j in range(n))
            if not ok:
                ctx.violation("shared_parameters/%s_after_%s" % (g, seq[step - 1] if step else "nothing"),
                              "design %s generated after %s on the same parameter list no longer has its defining structure over "
                              "the declared bounds" % (g, seq[:step]), wit())
                return
        ctx.nontrivial(("sp", tuple(seq), n))
        ctx.count("cases")
    elif name == "gsd_generator":
        r = ctx.rng("gg", params["seed"])
        nf = r.randint(2, 4)
        values = [sorted(r.sample(range(-30, 30), r.randint(2, 6))) for _ in range(nf)]
        red = r.randint(2, 4)
        n = r.choice([1, 1, 1, 2, red])
        g = operators.GSDGenerator(P([[0, 1]] * nf))
        g.init([list(map(float, v)) for v in values], red, n)
        wit = lambda: {"values": values, "reduction": red, "n": n}
        try:
            vecs = g.generate()
        except ValueError:
            ctx.count("gsd_documented_value_errors")
            return
        except TypeError as e:
            if n >= 2:
                ctx.violation("C13/GSDGenerator.generate/n>=2/TypeError", "GSDGenerator.generate raises TypeError when "
                              "complementary designs are requested: %r" % e, wit())
            else:
                ctx.violation("gsd_generator/exception", "generate raised %r" % e, wit())
            return
        except Exception as e:
            ctx.violation("gsd_generator/exception", "generate raised %r" % e, wit())
            return
        ctx.count("gsd_generator_designs")
        if n == 1:
            full = set(itertools.product(*[map(float, v) for v in values]))
            rows = [tuple(v) for v in vecs]
            if len(set(rows)) != len(rows) or not set(rows) <= full:
                ctx.violation("gsd_generator/subset", "generated design is not a duplicate-free subset of the full factorial "
                              "over the supplied levels", wit())
                return
            ctx.nontrivial(("gg", tuple(map(tuple, values)), red))
        ctx.count("cases")


def requirements(ctx):
    ctx.require("fullfact_designs", 50)
    ctx.require("pb_column_pairs_checked", 1000)
    ctx.require("bb_designs", 10)
    ctx.require("gsd_complementary_families", 50)
    ctx.require("gsd_generator_designs", 10)
    ctx.require("designs_on_shared_parameters", 100)
