"""C15 — single-objective benchmarks: total on the box, optimum where and as documented."""
import itertools
import math

import numpy as np

from .. import hooks, rng as vrng

PID = "C15"
LEVEL = "exploration"
RULE = ("every BenchmarkFunction subclass with one cost in benchmark_functions/benchmark_robust, every accepted dimension from "
        "{1..6,10} plus 16,17,33 (quick) / 7..80 and random 7..64 (thorough) with a reduced search budget (Michalewicz 2,5,10): box corners, face centres, random interior, optimum neighbourhood as Python floats "
        "and numpy.float64 (totality); value at documented optimum (1e-3); random + pattern-search + Nelder-Mead adversarial "
        "search for a point better than the documented optimum by >1e-3. non-trivial = evaluated point other than the "
        "optimum itself; distinct by (function, dimension, point)")
ASSUMPTIONS = ["a failed adversarial search is not a proof that no better point exists",
               "tolerance 1e-3 absolute as stated (documented constants carry 4-5 digits)"]
SHARDS = {"quick": 1, "thorough": 16}
WATCHDOG = {"quick": 900, "thorough": 3000}
TOL = 1e-3
DIMS = [1, 2, 3, 4, 5, 6, 10]
# larger dimensions get a reduced search budget per variant (the constructor accepts any dimension: powers, products and index-
# dependent constants are where a formula can stop being finite or stop matching its metadata)
DIMS_LARGE_QUICK = [16, 17, 33]
DIMS_LARGE = [7, 8, 9, 12, 16, 17, 20, 30, 50, 80]


def functions():
    """[(class, kwargs)] for every constructible single-objective benchmark"""
    from artap import benchmark_functions as bf, benchmark_robust as br
    out = []
    seen = set()
    for mod in (bf, br):
        for name in sorted(vars(mod)):
            cls = getattr(mod, name)
            if not (isinstance(cls, type) and issubclass(cls, bf.BenchmarkFunction)) or cls is bf.BenchmarkFunction:
                continue
            if cls in seen:
                continue
            seen.add(cls)
            out.append(cls)
    return out


def instantiate(cls, dim):
    try:
        p = cls(**({"dimension": dim} if dim is not None else {}))
    except Exception:
        return None
    hooks.tame(p)
    return p


def variants(cls, extra=(), order=None):
    """dimensions the constructor accepts; fixed-dimension classes ignore the argument"""
    out = []
    p0 = instantiate(cls, None)
    if p0 is not None and len(p0.parameters) > 0:
        return [(None, p0)]
    dims = list(DIMS) + [d_ for d_ in extra if d_ not in DIMS]
    if order is not None:
        # several problem objects of one class are alive at once, created in no particular order and used in another one: what one
        # of them answers never depends on which of its siblings was created last
        order.shuffle(dims)
    for d in dims:
        p = instantiate(cls, d)
        if p is not None and len(p.parameters) == d:
            out.append((d, p))
    if order is not None:
        order.shuffle(out)
    return out


def cases(ctx):
    for cls in functions():
        yield "function", {"cls": cls.__name__, "seed": ctx.subseed(cls.__name__), "extra": ctx.pick(DIMS_LARGE_QUICK, DIMS_LARGE),
                           "n_random": ctx.pick(2000, 4000), "starts": ctx.pick(10, 16)}
    for cls in functions():
        yield "diagonal", {"cls": cls.__name__, "seed": ctx.subseed("dg", cls.__name__), "dims": ctx.pick([1000], [257, 720, 1000, 3000])}
    for cls in functions():
        yield "long_history", {"cls": cls.__name__, "seed": ctx.subseed("lh", cls.__name__), "points": ctx.pick(20000, 70000)}
    if not ctx.quick:
        for cls in functions():
            for rep in range(120):
                rr = ctx.rng("dims", cls.__name__, rep)
                yield "function", {"cls": cls.__name__, "seed": ctx.subseed(cls.__name__, rep),
                                   "extra": [rr.randint(7, 64)] if rep % 4 == 0 else [], "n_random": 3000, "starts": 12}


def run_case(ctx, name, params):
    from artap.individual import Individual
    cls = next(c for c in functions() if c.__name__ == params["cls"])
    vs = variants(cls, params.get("extra", ()), ctx.rng("order", params["seed"]))
    if not vs:
        ctx.count("classes_not_constructible")
        return
    r = ctx.rng("fn", params["seed"])
    vrng.install(vrng.SeededRandom(params["seed"]))
    if name == "diagonal":
        # very high dimensions, structured points: all coordinates equal (or alternating in sign) -- sums and products over the
        # coordinates reach their extremes there, random points average them out
        for d_ in params["dims"]:
            p = instantiate(cls, d_)
            if p is None or len(p.parameters) != d_ or len(p.costs) != 1:
                continue
            box = [tuple(q["bounds"]) for q in p.parameters]
            lb0, ub0 = box[0]
            if any(b != box[0] for b in box):
                continue
            # a function whose values at the two far corners of the box do not fit a double in this dimension (Perm: d**(2d)) has no
            # finite cost to return there in the first place: such (function, dimension) pairs are outside "supported dimensions"
            try:
                far = [float(p.evaluate(Individual([e_] * d_))[0]) for e_ in (lb0, ub0)]
            except OverflowError:
                far = [math.inf]
            if not all(math.isfinite(v_) for v_ in far):
                ctx.count("diagonal_variants_skipped_value_range_exceeds_a_double")
                continue
            ctx.count("diagonal_variants")
            opt = getattr(p, "global_optimum", None)
            sign = -1.0 if p.costs[0].get("criteria", "minimize") != "minimize" else 1.0
            ts = [lb0, ub0, (lb0 + ub0) / 2] + [lb0 + r.random() * (ub0 - lb0) for _ in range(60)] + \
                 [math.sqrt(k_ * math.pi / 2) for k_ in range(1, 40) if lb0 <= math.sqrt(k_ * math.pi / 2) <= ub0]
            for t in ts:
                for alt in (False, True):
                    if alt and not (lb0 <= -t <= ub0):
                        continue
                    x = [(-t if (alt and i % 2) else t) for i in range(d_)]
                    ctx.count("diagonal_points")
                    try:
                        v = float(p.evaluate(Individual(x))[0])
                    except OverflowError:
                        v = math.inf
                    except Exception as e:
                        ctx.violation("C15/%s/totality/exception/%s" % (cls.__name__, type(e).__name__), "%s(dimension %d).evaluate raised %r on a "
                                      "point of its box" % (cls.__name__, d_, e), {"function": cls.__name__, "dimension": d_, "t": t, "alternating": alt})
                        return
                    if not math.isfinite(v):
                        # sums and products over a thousand coordinates leave the double range for more than one formula (Perm, and
                        # Xin-She Yang's function written as its documentation gives it): whether such a dimension is "supported" the
                        # statement does not say -- counted, not judged (see DESIGN 8.5); the bound clause below still applies
                        ctx.count("diagonal_points_beyond_the_double_range")
                        continue
                    if opt is not None and cls.__name__ not in ("XinSheYang3", "ModifiedEasom") and sign * v < sign * opt - TOL:
                        ctx.violation("C15/%s/bound/%s" % (cls.__name__, "declared_" + ("maximize" if sign < 0 else "minimize")),
                                      "%s(dimension %d): value %r at the point with all coordinates %s%r is better than the documented optimum %r"
                                      % (cls.__name__, d_, v, "+-" if alt else "", t, opt), {"function": cls.__name__, "dimension": d_, "t": t})
                        return
        ctx.count("cases")
        return
    if name == "long_history":
        # one benchmark object over a long run: sentinel points are evaluated first, then again after every 4096 evaluations of
        # other points and at the end; every answer must be the first one (the randomised Xin-She-Yang-3 function is exempt)
        if cls.__name__ == "XinSheYang3":
            return
        cand = [v for v in vs if len(v[1].costs) == 1]
        if not cand:
            return
        dim, p = next((v for v in cand if len(v[1].parameters) >= 2), cand[0])
        box = [tuple(q["bounds"]) for q in p.parameters]
        mk = lambda: [lb + r.random() * (ub - lb) for lb, ub in box]
        sentinels = [mk() for _ in range(4)] + [[(lb + ub) / 2 for lb, ub in box], [lb for lb, ub in box], [ub for lb, ub in box]]
        coords = getattr(p, "global_optimum_coords", None)
        if coords is not None and len(coords) == len(box):
            sentinels.append([float(c) for c in coords])
        try:
            first = [float(p.evaluate(Individual(list(x)))[0]) for x in sentinels]
            for k in range(params["points"]):
                v = float(p.evaluate(Individual(mk()))[0])
                ctx.count("long_history_evaluations")
                if not math.isfinite(v):
                    ctx.violation("C15/%s/totality/not_finite_scalar" % cls.__name__, "%s returned %r at evaluation %d of a long run on one "
                                  "object" % (cls.__name__, v, k), {"function": cls.__name__, "dimension": len(box)})
                    return
                if k % 4096 == 4095 or k == params["points"] - 1:
                    for x0, f0 in zip(sentinels, first):
                        f1 = float(p.evaluate(Individual(list(x0)))[0])
                        ctx.count("sentinel_re_evaluations")
                        if f1 != f0:
                            ctx.violation("C15/%s/sentinel_changed_in_long_history" % cls.__name__, "%s answers %r for a point it answered %r "
                                          "before (%d evaluations of other points on the same object in between)"
                                          % (cls.__name__, f1, f0, k + 1), {"function": cls.__name__, "dimension": len(box), "x": x0})
                            return
        except Exception as e:
            ctx.violation("C15/%s/totality/exception/%s" % (cls.__name__, type(e).__name__), "%s.evaluate raised %r in a long run on one object"
                          % (cls.__name__, e), {"function": cls.__name__, "dimension": len(box)})
            return
        ctx.nontrivial(("lh", cls.__name__))
        ctx.count("cases")
        return
    revisit = []
    for dim, p in vs:
        if len(p.costs) != 1:
            continue
        ctx.count("function_variants")
        if len(p.parameters) > 10:
            ctx.count("function_variants_above_10_dimensions")
        n = len(p.parameters)
        box = [tuple(q["bounds"]) for q in p.parameters]
        maximize = p.costs[0].get("criteria", "minimize") != "minimize"
        sign = -1.0 if maximize else 1.0
        fname = cls.__name__
        opt = getattr(p, "global_optimum", None)
        coords = getattr(p, "global_optimum_coords", None)
        cond = "-"
        if fname == "ModifiedEasom":
            cond = "odd_dimension" if n % 2 else "even_dimension"
        state = {"bad": False}

        def f(x, as_numpy=False):
            """calls the real evaluate; returns the scalar or None after recording a totality violation"""
            if as_numpy is True:
                as_numpy = np.float64
            vec = [as_numpy(v) for v in x] if as_numpy else [float(v) for v in x]
            ctx.count("evaluations_numpy" if as_numpy else "evaluations_python")
            if as_numpy and as_numpy is not np.float64:
                ctx.count("evaluations_numpy_" + as_numpy.__name__)
            wit = {"function": fname, "dimension": n, "x": [float(v) for v in x], "numpy": getattr(as_numpy, "__name__", as_numpy)}
            try:
                ind = state.get("ind")
                if ind is not None and len(ind.vector) == len(vec) and r.random() < 0.3:
                    ind.vector = vec            # the same Individual object, moved (as swarm particles are)
                    ctx.count("re_evaluations_of_a_moved_individual")
                else:
                    ind = state["ind"] = Individual(vec)
                res = p.evaluate(ind)
                prev_ = state.get("kept")
                if prev_ is not None and fname != "XinSheYang3":
                    ctx.count("earlier_results_rechecked_after_a_later_evaluation")
                    try:
                        now_ = [float(v_) for v_ in prev_[0]]
                    except Exception:
                        now_ = None
                    if now_ != prev_[1]:
                        ctx.violation("C15/%s/earlier_result_changed" % fname, "the cost returned for an earlier point changed when another point "
                                      "was evaluated on the same problem object (was %r, now %r)" % (prev_[1], now_), wit)
                        state["bad"] = True
                        return None
                try:
                    state["kept"] = (res, [float(v_) for v_ in res])
                except Exception:
                    state["kept"] = None
            except Exception as e:
                ctx.violation("C15/%s/totality/exception/%s" % (fname, type(e).__name__),
                              "%s.evaluate raised %r on a point of its box" % (fname, e), wit)
                state["bad"] = True
                return None
            try:
                ok = len(res) == 1
                v = res[0]
                ok = ok and not isinstance(v, complex) and np.isscalar(v) or (ok and isinstance(v, np.ndarray) and v.shape == ())
                v = float(v)
                ok = ok and math.isfinite(v)
            except Exception:
                ok = False
                v = None
            if not ok:
                ctx.violation("C15/%s/totality/not_finite_scalar" % fname,
                              "%s.evaluate returned %r (expected one finite real)" % (fname, res), wit)
                state["bad"] = True
                return None
            return v

        # (1) totality: corners, face centres, random, as Python floats and numpy scalars
        pts = []
        if n <= 6:
            pts += [list(c) for c in itertools.product(*box)]
        else:
            pts += [[b[r.randint(0, 1)] for b in box] for _ in range(64)]
        mid = [(lb + ub) / 2 for lb, ub in box]
        pts.append(mid)
        for i in range(n):
            for e in (0, 1):
                q = list(mid)
                q[i] = box[i][e]
                pts.append(q)
        for _ in range(60):
            pts.append([lb + r.random() * (ub - lb) for lb, ub in box])
        if coords is not None and len(coords) == n:
            for _ in range(20):
                s = 10.0 ** r.randint(-8, -1)
                pts.append([min(max(c + r.uniform(-s, s) * (ub - lb), lb), ub) for c, (lb, ub) in zip(coords, box)])
        best = None
        # numpy floats of every width the values fit into (float32 holds ~3e38: the steep functions exceed that in high dimensions)
        widths = [np.float64, np.float64, np.longdouble] + ([np.float32] if n <= 10 else [])
        for qi, q in enumerate(pts):
            for as_np in (False, widths[qi % len(widths)]):
                v = f(q, as_np)
                if state["bad"]:
                    break
                ctx.nontrivial((fname, n, tuple(q), getattr(as_np, "__name__", as_np)))
                if as_np is False and (best is None or sign * v < sign * best[0]):     # the bound clause is judged on exact box points
                    best = (v, q)
            if state["bad"]:
                break
        ctx.count("cases")
        if state["bad"]:
            continue
        # (2) documented optimum value at the documented coordinates
        if opt is not None and coords is not None and len(coords) == n:
            draws = 5 if fname == "XinSheYang3" else 1
            for _ in range(draws):
                for as_np in [False, np.float64, np.longdouble] + ([np.float32] if n <= 10 else []):
                    v = f(list(coords), as_np)
                    ctx.count("optimum_value_checks")
                    if v is not None and abs(v - opt) > TOL:
                        ctx.violation("C15/%s/optimum_value/%s" % (fname, cond),
                                      "%s(dimension %d) evaluates to %r at its documented optimum coordinates, documented "
                                      "optimum is %r" % (fname, n, v, opt),
                                      {"function": fname, "dimension": n, "coords": [float(c) for c in coords], "value": v,
                                       "documented": opt})
                        break
        # (3) nothing in the box is better than the documented optimum
        if opt is not None:
            def fs(x):
                x = [min(max(a, lb), ub) for a, (lb, ub) in zip(x, box)]
                v = f(x)
                return (math.inf if v is None else sign * v), x
            cands = []
            large = n > 10
            for _ in range(max(200, params["n_random"] * 4 // n) if large else params["n_random"]):
                q = [lb + r.random() * (ub - lb) for lb, ub in box]
                v, q = fs(q)
                cands.append((v, q))
            # structured points: the documented optimum of the same function in a lower dimension, embedded as a prefix or suffix
            # and padded with random values, mid-points, bounds or this dimension's optimum coordinates (sums and products over
            # "the first k coordinates" are where dimension-generic formulas go wrong)
            for dk, pk in vs:
                ck = getattr(pk, "global_optimum_coords", None)
                if dk is None or ck is None or len(ck) != len(pk.parameters) or len(ck) >= n:
                    continue
                ck = [float(c) for c in ck]
                for pad in ("rand", "rand", "mid", "lb", "ub", "opt"):
                    rest = []
                    for i in range(n - len(ck)):
                        lb, ub = box[len(ck) + i]
                        rest.append(lb + r.random() * (ub - lb) if pad == "rand" else (lb + ub) / 2 if pad == "mid" else lb if pad == "lb"
                                    else ub if pad == "ub" else (float(coords[len(ck) + i]) if coords is not None and len(coords) == n else lb))
                    for q in (ck + rest, rest + ck):
                        v, q = fs(q)
                        cands.append((v, q))
                        ctx.count("embedded_lower_dimensional_optimum_points")
            if best is not None:
                cands.append((sign * best[0], best[1]))
            cands.sort(key=lambda t: t[0])
            tops = cands[:(2 if large else params["starts"])]
            if coords is not None and len(coords) == n:
                # the documented optimum itself is always a start: anything better right next to it is found by the
                # shrinking pattern (steps from 1/8 of the range down to 1e-7 of it)
                v0, q0 = fs([float(c) for c in coords])
                tops = tops + [(v0, q0)]
            for v0, q0 in tops:
                # coordinate pattern search
                x, fx = list(q0), v0
                step = [(ub - lb) / 8 for lb, ub in box]
                it = 0
                while max(s / (ub - lb) for s, (lb, ub) in zip(step, box)) > 1e-7 and it < 60:
                    it += 1
                    improved = False
                    for i in range(n):
                        for d in (1, -1):
                            y = list(x)
                            y[i] = min(max(x[i] + d * step[i], box[i][0]), box[i][1])
                            fy, y = fs(y)
                            if fy < fx:
                                x, fx, improved = y, fy, True
                    if not improved:
                        step = [s / 2 for s in step]
                cands.append((fx, x))
            bestv, bestx = min(cands, key=lambda t: t[0])
            ctx.count("bound_searches")
            if bestv < sign * opt - TOL:
                ctx.violation("C15/%s/bound/%s" % (fname, "declared_" + ("maximize" if maximize else "minimize")),
                              "%s(dimension %d): found a point with value %r, better than the documented optimum %r in the "
                              "declared direction (%s)" % (fname, n, sign * bestv, opt, "maximize" if maximize else "minimize"),
                              {"function": fname, "dimension": n, "x": bestx, "value": sign * bestv, "documented": opt})
        # (4) the same benchmark object evaluated by several threads at once (what max_processes>1 does), with statement-level
        # yields inside benchmark code: every call must return the value of ITS point
        if fname != "XinSheYang3" and not state["bad"]:
            import threading
            from .. import sched
            tpts = [[lb + r.random() * (ub - lb) for lb, ub in box] for _ in range(24)]
            if coords is not None and len(coords) == n:
                tpts.append([float(c) for c in coords])
            serial = [p.evaluate(Individual(list(q)))[0] for q in tpts]
            got = [None] * len(tpts)

            def work(k0):
                for k in range(k0, len(tpts), 3):
                    for _rep in range(2):
                        got[k] = p.evaluate(Individual(list(tpts[k])))[0]
            inj = sched.YieldInjector(params["seed"] + n, prob=0.4, modules=("artap.benchmark_functions", "artap.benchmark_robust"))
            inj.start()
            try:
                ths = [threading.Thread(target=work, args=(k0,)) for k0 in range(3)]
                for t in ths:
                    t.start()
                for t in ths:
                    t.join()
            finally:
                inj.stop()
            ctx.count("threaded_evaluations", 2 * len(tpts))
            ctx.count("line_yields_inside_benchmarks", inj.yields)
            for k, (a_, b_) in enumerate(zip(serial, got)):
                if b_ is None or float(a_) != float(b_):
                    ctx.violation("C15/%s/threaded_value" % fname, "%s.evaluate returned %r for a point whose value is %r when three "
                                  "threads evaluate different points on the same object" % (fname, b_, a_),
                                  {"function": fname, "dimension": n, "x": tpts[k]})
                    break
            # and the object must still be intact afterwards
            if coords is not None and len(coords) == n and opt is not None and fname != "ModifiedEasom":
                v = f(list(coords))
                if v is not None and abs(v - opt) > TOL:
                    ctx.violation("C15/%s/optimum_value_after_threads" % fname, "%s evaluates to %r at its documented optimum after "
                                  "concurrent use" % (fname, v), {"function": fname, "dimension": n})
        ctx.sample({"function": fname, "dimension": n, "criteria": "maximize" if maximize else "minimize",
                    "documented_optimum": opt, "best_seen": None if best is None else best[0]}, fname, 1)
        if fname != "XinSheYang3" and not state["bad"]:
            q_ = [lb + r.random() * (ub - lb) for lb, ub in box]
            v_ = f(q_)
            if v_ is not None:
                revisit.append((p, n, q_, v_))
    # siblings, continued: after everything above, one more problem object of the class is created in the smallest and one in the
    # largest dimension used, and every earlier object answers one of its points again -- with the value it gave before
    if revisit and len(revisit) >= 2:
        dims_ = sorted(n_ for _, n_, _, _ in revisit)
        for d_ in (dims_[0], dims_[-1]):
            instantiate(cls, d_)
            for p_, n_, q_, v_ in revisit:
                ctx.count("sibling_revisits")
                try:
                    again = float(p_.evaluate(Individual([float(c_) for c_ in q_]))[0])
                except Exception as e:
                    ctx.violation("C15/%s/totality/exception/%s" % (cls.__name__, type(e).__name__), "%s(dimension %d).evaluate raised %r after "
                                  "another problem object of the class (dimension %d) was created" % (cls.__name__, n_, e, d_),
                                  {"function": cls.__name__, "dimension": n_, "x": q_})
                    return
                if again != v_:
                    ctx.violation("C15/%s/sibling_changed_value" % cls.__name__, "%s(dimension %d) answers %r for a point it answered %r before "
                                  "another problem object of the class (dimension %d) was created" % (cls.__name__, n_, again, v_, d_),
                                  {"function": cls.__name__, "dimension": n_, "x": q_})
                    return


def requirements(ctx):
    ctx.require("function_variants", 20)
    ctx.require("function_variants_above_10_dimensions", 10)
    ctx.require("evaluations_python", 5000)
    ctx.require("evaluations_numpy", 1000)
    ctx.require("optimum_value_checks", 20)
    ctx.require("bound_searches", 20)
    ctx.require("threaded_evaluations", 500)
