"""C08 — variation, sampling and search never leave the declared parameter box."""
import math

from .. import gen, hooks, insitu, rng as vrng

PID = "C08"
LEVEL = "exploration"
RULE = ("SBX / polynomial / uniform / non-uniform mutation driven directly with parents inside the box (on lb, on ub, coincident, "
        "differing by 1e-16..1e-12, random) over all box families, probabilities 0..1, distribution indices 0..1000, iterations "
        "0..max under a hostile RNG (random() returning 0, 2^-53, 0.5+-ulp, 1-2^-53); all generators on the same boxes; full runs "
        "of NSGA-II, eps-MOEA, OMOPSO, SMPSO, PSOGA whose objective checks every vector it receives. non-trivial = case with a "
        "parent on/next to a bound or an edge RNG draw, or a completed run; distinct by (operator, box, parents, seed)")
ASSUMPTIONS = ["tolerance: 0 for operator outputs (they clip); 1e-12 + 4 ulp for generators without declared precision; "
               "precision/2 + 4 ulp with declared precision", "a run that aborts with an exception is counted, not judged by this property",
               "boxes with bounds up to 1.79e308 are given to the variation operators only; generators and runs get bounds up to 1e12 "
               "(the default 1e-12 rounding grid, round(x / 1e-12), cannot be formed beyond 1.8e296 and is far below one ulp long before)"]
SHARDS = {"quick": 1, "thorough": 16}
WATCHDOG = {"quick": 900, "thorough": 3000}
OPS = ["sbx", "pm", "uniform", "nonuniform"]


def cases(ctx):
    for i in range(ctx.pick(4000, 640000)):
        yield "operator", {"seed": ctx.subseed("o", i), "op": OPS[i % 4]}
    for i in range(ctx.pick(1500, 200000)):
        yield "generated_parents", {"seed": ctx.subseed("gp", i), "op": OPS[i % 4]}
    for i in range(ctx.pick(600, 100000)):
        yield "generator", {"seed": ctx.subseed("g", i), "gen": ["random", "lhs", "halton", "uniform", "fullfact", "pb", "bb", "gen_vector"][i % 8]}
    for i in range(ctx.pick(120, 24000)):
        yield "run", {"seed": ctx.subseed("r", i), "algo": insitu.ALGOS[i % 5]}


def tol(lb, ub, precision=None):
    u = 4 * math.ulp(max(abs(lb), abs(ub)))
    return (precision / 2.0 if precision else 1e-12) + u


def parent_pair(r, bxs):
    p1, p2 = [], []
    for bx in bxs:
        lb, ub = bx
        mode = r.choice(["rand", "rand", "lb_ub", "both_lb", "both_ub", "coincident", "almost", "near_bounds"])
        if mode == "rand":
            a, b = gen.point_in_box(r, bx, "rand"), gen.point_in_box(r, bx, "rand")
        elif mode == "lb_ub":
            a, b = lb, ub
        elif mode == "both_lb":
            a, b = lb, lb
        elif mode == "both_ub":
            a, b = ub, ub
        elif mode == "coincident":
            a = gen.point_in_box(r, bx)
            b = a
        elif mode == "almost":
            a = gen.point_in_box(r, bx, "rand")
            d = 10.0 ** r.randint(-16, -12) * max(1.0, abs(a))
            b = min(max(a + r.choice([-1, 1]) * d, lb), ub)
        else:
            a, b = gen.point_in_box(r, bx, "near_lb"), gen.point_in_box(r, bx, "near_ub")
        if r.random() < 0.5:
            a, b = b, a
        p1.append(a)
        p2.append(b)
    return p1, p2


def judge_children(ctx, op, children, bxs, n, wit):
    for ch in children:
        ctx.count("children_checked")
        try:
            ok_len = len(ch) == n
        except Exception:
            ok_len = False
        if not ok_len:
            ctx.violation("%s/dimension" % op, "child is not a vector of the parents' dimension", wit())
            return False
        for x, (lb, ub) in zip(ch, bxs):
            if isinstance(x, complex) or not isinstance(x, (int, float)) and not hasattr(x, "__float__"):
                ctx.violation("%s/not_real" % op, "child coordinate %r is not a real number" % (x,), wit())
                return False
            xf = float(x)
            if xf != xf:
                ctx.violation("%s/nan" % op, "child coordinate is NaN", wit())
                return False
            if not (lb <= xf <= ub):
                ctx.violation("%s/out_of_box" % op, "child coordinate %r outside [%r, %r]" % (xf, lb, ub), wit())
                return False
    return True


def run_case(ctx, name, params):
    from artap import operators
    r = ctx.rng(name, params["seed"])
    if name == "operator":
        op = params["op"]
        n = r.randint(1, 6)
        fam = r.choice(gen.BOX_FAMILIES + ["extreme"])      # operators only: see ASSUMPTIONS for generators and runs
        bxs = gen.boxes(r, n, fam)
        P = [{"name": "x%d" % i, "bounds": list(b)} for i, b in enumerate(bxs)]
        hr = vrng.HostileRandom(params["seed"], r.choice([0.1, 0.3, 0.3]) if op == "sbx" else r.choice([0.0, 0.1, 0.3]))
        vrng.install(hr)
        prob = r.choice([0.0, 1.0, 1.0, 0.5, r.random()])
        eta = r.choice([0, 1, 15, 20, 100, 1000, r.uniform(0, 50)])
        p1, p2 = parent_pair(r, bxs)
        wit = lambda: {"operator": op, "bounds": bxs, "p1": p1, "p2": p2, "probability": prob, "distribution_index": eta,
                       "rng_edges": hr.edges}
        try:
            if op == "sbx":
                o = operators.SimulatedBinaryCrossover(P, prob, eta)
                for _ in range(60):     # the clip only matters by rounding: many draws per parent pair
                    c1, c2 = o.cross(list(p1), list(p2))
                    if not judge_children(ctx, op, [c1, c2], bxs, n, wit):
                        return
            elif op == "pm":
                o = operators.PmMutator(P, prob, eta)
                for _ in range(4):
                    c = o.mutate(list(p1), list(p2))
                    if not judge_children(ctx, op, [c], bxs, n, wit):
                        return
            elif op == "uniform":
                o = operators.UniformMutator(P, prob, r.choice([0.5, 1.0, 10.0, 1e6, 1e-9]))
                for _ in range(4):
                    c = o.mutate(list(p1))
                    if not judge_children(ctx, op, [c], bxs, n, wit):
                        return
            else:
                mx = r.randint(1, 50)
                o = operators.NonUniformMutation(P, prob, mx, r.choice([0.5, 1.0, 5.0]))
                for it in {0, mx, r.randint(0, mx), r.randint(0, mx)}:
                    c = o.mutate(list(p1), it)
                    if not judge_children(ctx, op, [c], bxs, n, wit):
                        return
            # the declared box is changed in place (the usual "zoom in" refinement) and the SAME operator object is used again:
            # children must respect the box that is declared now
            if r.random() < 0.5:
                for q, (lb, ub) in zip(P, bxs):
                    w = ub - lb
                    a_, b_ = sorted([lb + r.random() * w, lb + r.random() * w])
                    if b_ - a_ < 1e-6 * w:
                        a_, b_ = lb + 0.25 * w, lb + 0.75 * w
                    q["bounds"][0], q["bounds"][1] = a_, b_
                bxs = [tuple(q["bounds"]) for q in P]
                p1, p2 = parent_pair(r, bxs)
                ctx.count("operator_reused_after_box_change")
                for _ in range(6):
                    if op == "sbx":
                        kids = list(o.cross(list(p1), list(p2)))
                    elif op == "pm":
                        kids = [o.mutate(list(p1), list(p2))]
                    elif op == "uniform":
                        kids = [o.mutate(list(p1))]
                    else:
                        kids = [o.mutate(list(p1), r.randint(0, mx))]
                    if not judge_children(ctx, op + "/after_box_change", kids, bxs, n, wit):
                        return
        except Exception as e:
            ctx.violation("%s/exception/%s" % (op, type(e).__name__), "%s raised %r for parents inside the box" % (op, e), wit())
            return
        ctx.count("operator_cases")
        ctx.count("hostile_rng_edge_draws", hr.edges)
        ctx.nontrivial((op, tuple(map(tuple, bxs)), tuple(p1), tuple(p2), params["seed"]))
        ctx.count("cases")
        ctx.sample({"operator": op, "bounds": bxs[:2], "p1": p1[:2], "p2": p2[:2], "rng_edge_draws": hr.edges}, op, 1)
    elif name == "generated_parents":
        # the parents the library itself produces: designs drawn by gen_vector for parameters with a declared precision lie on a
        # grid anchored at zero, i.e. inside the box only up to half a grid step -- or up to one ulp when the bound is a grid
        # point.  Variation of such parents must not fail, and stays inside the box up to the same tolerance (a coordinate that
        # is copied through unchanged keeps its grid value).
        from artap.utils import VectorAndNumbers
        op = params["op"]
        n = r.randint(1, 4)
        bxs = gen.boxes(r, n, r.choice(["offset", "offset", "neg", "mixed", "unit", "asym", "huge"]))
        precs = []
        for lb, ub in bxs:
            c = r.random()
            precs.append((ub - lb) / r.choice([2, 3, 3, 4, 7, 10]) if c < 0.7 else r.choice([0.25, 0.5, 0.1, 0.3]) * (ub - lb))
        P = [{"name": "x%d" % i, "bounds": list(b), "precision": pr} for i, (b, pr) in enumerate(zip(bxs, precs))]
        vrng.install(vrng.SeededRandom(params["seed"]))
        pool = [VectorAndNumbers.gen_vector(P) for _ in range(12)]
        prob = r.choice([1.0, 1.0, 0.5])
        eta = r.choice([1, 15, 20, 100])
        wit = lambda: {"operator": op, "bounds": bxs, "precision": precs, "p1": p1, "p2": p2}
        p1 = p2 = None
        try:
            for _ in range(30):
                p1, p2 = r.choice(pool), r.choice(pool)
                if r.random() < 0.4:
                    # the partner is an in-box design that lies as far inside a bound as the generated design lies outside it
                    # (what clipping and earlier variation leave next to a bound)
                    p2 = list(p2)
                    for i_, (x_, (lb, ub)) in enumerate(zip(p1, bxs)):
                        if x_ < lb and lb + (lb - x_) <= ub:
                            p2[i_] = lb + (lb - x_)
                            ctx.count("partners_mirrored_at_a_bound")
                        elif x_ > ub and ub - (x_ - ub) >= lb:
                            p2[i_] = ub - (x_ - ub)
                            ctx.count("partners_mirrored_at_a_bound")
                if op == "sbx":
                    kids = list(operators.SimulatedBinaryCrossover(P, prob, eta).cross(list(p1), list(p2)))
                elif op == "pm":
                    kids = [operators.PmMutator(P, prob, eta).mutate(list(p1), list(p2))]
                elif op == "uniform":
                    kids = [operators.UniformMutator(P, prob, 1.0).mutate(list(p1))]
                else:
                    kids = [operators.NonUniformMutation(P, prob, 10, 1.0).mutate(list(p1), r.randint(0, 10))]
                ctx.count("variations_of_library_generated_parents")
                for ch in kids:
                    if len(ch) != n:
                        ctx.violation("%s/dimension" % op, "child is not a vector of the parents' dimension", wit())
                        return
                    for x, (lb, ub), pr in zip(ch, bxs, precs):
                        xf = float(x)
                        t = tol(lb, ub, pr)
                        if not (lb - t <= xf <= ub + t):
                            ctx.violation("%s/generated_parents/out_of_box" % op, "child coordinate %r outside [%r, %r] by more than half the "
                                          "declared precision" % (xf, lb, ub), wit())
                            return
        except Exception as e:
            ctx.violation("%s/generated_parents/exception/%s" % (op, type(e).__name__), "%s raised %r for parents drawn by the library's own "
                          "generator (declared precision)" % (op, e), wit())
            return
        ctx.nontrivial(("gp", op, params["seed"]))
        ctx.count("cases")
    elif name == "generator":
        g = params["gen"]
        n = r.randint(3, 6) if g == "bb" else r.randint(1, 6)
        fam = r.choice(gen.BOX_FAMILIES)
        bxs = gen.boxes(r, n, fam)
        precs = [None] * n
        if g in ("random", "gen_vector") and r.random() < 0.4:
            precs = [r.choice([None, 1e-3, 0.01, 0.25, 1e-6, 0.5, 0.05, 0.4, 0.3, 5.0, 2.0]) for _ in range(n)]
        P = []
        for i, b in enumerate(bxs):
            q = {"name": "x%d" % i, "bounds": list(b)}
            if precs[i]:
                q["precision"] = precs[i]
            P.append(q)
        hr = vrng.HostileRandom(params["seed"], 0.2)
        vrng.install(hr)
        vrng.install_numpy(params["seed"] % 2 ** 31, 0.1)
        wit = lambda: {"generator": g, "bounds": bxs, "precision": precs}
        try:
            if g == "random":
                o = operators.RandomGenerator(P); o.init(r.randint(1, 60)); vecs = o.generate()
            elif g == "lhs":
                o = operators.LHSGenerator(P); o.init(r.randint(1, 60)); vecs = o.generate()
            elif g == "halton":
                o = operators.HaltonGenerator(P); o.init(r.randint(1, 60)); vecs = o.generate()
            elif g == "uniform":
                o = operators.UniformGenerator(P); o.init(r.randint(2, 4)); vecs = o.generate()
            elif g == "fullfact":
                o = operators.FullFactorGenerator(P); o.init(r.random() < 0.5); vecs = o.generate()
            elif g == "pb":
                o = operators.PlackettBurmanGenerator(P); vecs = o.generate()
            elif g == "bb":
                o = operators.BoxBehnkenGenerator(P); vecs = o.generate()
            else:
                from artap.utils import VectorAndNumbers
                vecs = [VectorAndNumbers.gen_vector(P) for _ in range(r.randint(1, 80))]
        except Exception as e:
            ctx.violation("generator/%s/exception" % g, "%s raised %r" % (g, e), wit())
            return
        finally:
            vrng.uninstall_numpy()
        ctx.count("generator_cases")
        for v in vecs:
            if len(v) != n:
                ctx.violation("generator/%s/dimension" % g, "design has %d coordinates for %d parameters" % (len(v), n), wit())
                return
            for x, (lb, ub), pr in zip(v, bxs, precs):
                ctx.count("generated_coordinates_checked")
                t = tol(lb, ub, pr)
                xf = float(x)
                if not (lb - t <= xf <= ub + t):
                    ctx.violation("generator/%s/out_of_box" % g, "coordinate %r outside [%r, %r] (tolerance %g)" % (xf, lb, ub, t), wit())
                    return
        ctx.nontrivial((g, tuple(map(tuple, bxs)), params["seed"]))
        ctx.count("cases")
    elif name == "run":
        algo = params["algo"]
        setup = insitu.random_setup(r, algo=algo, max_n=6, max_N=30, max_G=15)
        bxs = setup["bounds"]
        precs = [None] * len(bxs)
        if r.random() < 0.3:
            precs = [r.choice([None, 1e-3, 1e-6]) * 1 if False else r.choice([None, 1e-3, 1e-6, 0.5, 0.05, 0.4, 0.03]) for _ in bxs]
            precs = [pr if pr is None or pr < (ub - lb) / 50 else None for pr, (lb, ub) in zip(precs, bxs)]
        bad = []

        def on_call(vec):
            ctx.count("evaluated_vectors_checked")
            if len(vec) != len(bxs):
                bad.append(("dimension", list(vec)))
                return
            for x, (lb, ub), pr_ in zip(vec, bxs, precs):
                t = tol(lb, ub, pr_)
                if isinstance(x, complex) or x != x or not (lb - t <= x <= ub + t):
                    bad.append(("out_of_box", list(vec)))
                    return
        hostile = r.choice([0.0, 0.02, 0.1])
        prm_ = None
        if any(precs):
            prm_ = [dict({"name": "x%d" % i, "bounds": list(b)}, **({"precision": pr_} if pr_ else {})) for i, (b, pr_) in enumerate(zip(bxs, precs))]
            ctx.count("runs_with_declared_precision")
        extra_ = {"params": prm_} if prm_ else {}
        if algo in ("nsga2", "epsmoea") and not any(precs) and r.random() < 0.6:
            # the search region is re-declared between building the algorithm and running it (these two algorithms build their
            # generator and operators from the problem's parameter list inside run()), and the objective fails now and then:
            # every design that reaches the objective -- replacements of failed designs included -- lies in the box declared now
            nb = [gen.box(r, r.choice(["unit", "mixed", "neg", "asym", "offset"])) for _ in bxs]
            fr_ = ctx.rng("c08fail", params["seed"])
            streak_ = {}

            def script_(call_no, vec, individual):
                if streak_.get(individual.id, 0) < 3 and fr_.random() < 0.15:
                    streak_[individual.id] = streak_.get(individual.id, 0) + 1
                    return fr_.choice([TimeoutError, RuntimeError])("injected transient failure")
                streak_[individual.id] = 0
                return None

            def prepare_(a_, p_):
                p_.parameters = [{"name": "x%d" % i, "bounds": list(b)} for i, b in enumerate(nb)]
                bxs[:] = [list(b) for b in nb]
            extra_.update(prepare=prepare_, script=script_)
            ctx.count("runs_after_parameter_list_reassigned_with_failures")
        p, a, err = insitu.run_one(setup, hostile=hostile, on_call=on_call, timeout=10, **extra_)
        ctx.count("runs")
        if err is None and not bad and r.random() < 0.4:
            # zoom in: the declared box is narrowed in place and the same algorithm object runs again
            for q in p.parameters:
                lb, ub = q["bounds"]
                w = ub - lb
                q["bounds"][0], q["bounds"][1] = lb + 0.2 * w, ub - 0.3 * w
            bxs[:] = [list(q["bounds"]) for q in p.parameters]
            import signal as _sg
            old_h = _sg.signal(_sg.SIGALRM, insitu._alarm)
            _sg.setitimer(_sg.ITIMER_REAL, 10)
            try:
                a.run()
                ctx.count("second_runs_after_box_narrowing")
            except insitu.RunTimeout:
                ctx.count("runs_stopped_by_wall_clock_guard")
            except Exception as e2:
                ctx.count("second_runs_aborted")
            finally:
                _sg.setitimer(_sg.ITIMER_REAL, 0)
                _sg.signal(_sg.SIGALRM, old_h)
        wit = lambda: {"algo": algo, "N": setup["N"], "G": setup["G"], "bounds": bxs, "hostile": hostile, "seed": setup["seed"],
                       "first_bad": bad[:2]}
        if bad:
            ctx.violation("run/%s/%s" % (algo, bad[0][0]), "a design evaluated during a %s run lies outside the box" % algo, wit())
            return
        if isinstance(err, insitu.RunTimeout):
            ctx.count("runs_stopped_by_wall_clock_guard")
        elif err is not None:
            ctx.count("runs_aborted")
            ctx.sample({"algo": algo, "aborted_with": repr(err)}, "aborted_run", 2)
        else:
            ctx.count("runs_completed")
            ctx.nontrivial(("run", algo, setup["seed"]))
        ctx.count("cases")
        ctx.sample({"algo": algo, "N": setup["N"], "G": setup["G"], "bounds": bxs[:2], "evaluated": len(p.calls)}, "run_" + algo, 1)


def requirements(ctx):
    ctx.require("children_checked", 2000)
    ctx.require("hostile_rng_edge_draws", 100)
    ctx.require("generated_coordinates_checked", 2000)
    ctx.require("runs_completed", 15)
    ctx.require("evaluated_vectors_checked", 1000)
