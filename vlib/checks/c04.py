"""C04 — archive = non-dominated set of everything offered; add() result; truncate."""
import itertools

from .. import gen, insitu, oracles
from ..hooks import Patches
from .c01 import separated

PID = "C04"
LEVEL = "exploration"
RULE = ("random/hostile add histories over small grids and dyadic values (repeats, multi-evictions of non-adjacent members, "
        "dominated-after-dominating chains, infeasible members) for ParetoDominance and EpsilonDominance, compared after "
        "every add with the model ND(offered); each history replayed in 3 permutations; random truncate; archive "
        "invariants inside eps-MOEA/OMOPSO/SMPSO/PSOGA runs. non-trivial = history with an eviction of >=2 members or a "
        "duplicate rejection; distinct by (comparator, offered sequence)")
ASSUMPTIONS = ["epsilon histories use vectors that are identical or separated by more than rounding error",
               "in-situ archives (truncate interleaves with add) are checked for the invariants only"]
SHARDS = {"quick": 1, "thorough": 16}
WATCHDOG = {"quick": 900, "thorough": 3000}


def _ind(c):
    from artap.individual import Individual
    i = Individual([0.0])
    i.costs_signed = list(c)
    return i


def content(ar):
    return [tuple(i.costs_signed) for i in ar]


def norm(c):
    """canonical form: marker as float magnitude"""
    return tuple(float(x) for x in c[:-1]) + (oracles.marker(c[-1]),)


def cases(ctx):
    # the very first comparisons of the process go to the comparator object that every default Archive() shares, with the
    # smallest objective count first: whatever such an object remembers from its first use must not leak into later archives
    yield "default_first", {"seed": ctx.subseed("df")}
    for i in range(ctx.pick(500, 24000)):
        yield "history", {"seed": ctx.subseed("h", i), "max_len": ctx.pick(40, 200)}
    for i in range(ctx.pick(400, 40000)):
        yield "truncate", {"seed": ctx.subseed("t", i)}
    yield "exhaustive_small", {"length": 3}
    if not ctx.quick:
        for f in range(9):
            yield "exhaustive_small", {"length": 4, "first": f}
    for i in range(ctx.pick(40, 2000)):
        yield "insitu", {"seed": ctx.subseed("is", i), "algo": ["epsmoea", "omopso", "smpso", "psoga"][i % 4]}


def make_archive(kind, eps=None):
    from artap.archive import Archive
    from artap.operators import ParetoDominance, EpsilonDominance
    if kind == "pareto":
        return Archive(dominance=ParetoDominance())
    if kind == "default":
        return Archive()        # the default comparator object is shared by every archive of the process
    if kind == "shared_pareto":
        return Archive(dominance=_SHARED.setdefault("p", ParetoDominance()))
    return Archive(dominance=EpsilonDominance(eps))


_SHARED = {}


def drive(ctx, kind, eps, seq, tag):
    """feed seq (list of cost vectors) and compare with the model after every add.
    returns final set or None"""
    ar = make_archive(kind, eps)
    offered = []
    evict2 = dup = False
    # every public way of offering solutions: add(), append(), += one, and whole batches through extend() / += with a list, a tuple
    # or something that can be walked only once
    er = ctx.rng("entry", tag, repr(seq)[:200])
    mixed_entry = er.random() < 0.3
    step = -1
    while step + 1 < len(seq):
        step += 1
        c = seq[step]
        ind = _ind(c)
        before = list(ar)
        how = "add"
        batch = [ind]
        if mixed_entry:
            how = er.choice(["add", "add", "add", "append", "iadd_one", "extend", "iadd_many"])
            if how in ("extend", "iadd_many"):
                k_ = er.randint(1, 5)
                batch = [ind] + [_ind(c2) for c2 in seq[step + 1:step + k_]]
                step += len(batch) - 1
        try:
            if how == "add":
                ret = ar.add(ind)
            elif how == "append":
                ret = None
                ar.append(ind)
            elif how == "iadd_one":
                ret = None
                ar += ind
            else:
                ret = None
                kind_ = er.choice(["list", "tuple", "iterator", "generator"])
                arg_ = list(batch) if kind_ == "list" else tuple(batch) if kind_ == "tuple" else iter(batch) if kind_ == "iterator" else (b_ for b_ in batch)
                ctx.count("batches_offered_as_" + kind_)
                if how == "extend":
                    ar.extend(arg_)
                else:
                    ar += arg_
        except Exception as e:
            ctx.violation("add/exception", "Archive.%s raised %r" % (how, e), {"kind": kind, "eps": eps, "seq": seq[:step + 1]})
            return None
        ctx.count("add_calls", len(batch))
        if how != "add":
            ctx.count("solutions_offered_through_" + how, len(batch))
        for b_ in batch:
            offered.append(norm(b_.costs_signed))
        model = oracles.nd_set(offered)
        got = [norm(x) for x in content(ar)]
        member = any(x is ind for x in ar)
        wit = lambda: {"comparator": kind, "eps": eps, "offered": seq[:step + 1], "archive": content(ar),
                       "model": sorted(model), "returned": ret, "entry_point": how}
        if how == "add" and bool(ret) != member:
            ctx.violation("add/return_value", "add() returned %r but the offered solution is %sa member"
                          % (ret, "" if member else "not "), wit())
            return None
        if len(set(got)) != len(got):
            ctx.violation("add/duplicate_member", "archive holds the same cost vector twice", wit())
            return None
        if set(got) != model:
            extra = set(got) - model
            missing = model - set(got)
            key = "add/content/" + ("dominated_member_kept" if extra and not missing else
                                    "nondominated_missing" if missing and not extra else "both")
            ctx.violation(key, "archive differs from the non-dominated set of everything offered "
                          "(extra %s, missing %s)" % (sorted(extra)[:3], sorted(missing)[:3]), wit())
            return None
        # every rejected/evicted solution is dominated by or equal to a member
        gone = [x for x in before if not any(x is y for y in ar)]
        if len(gone) >= 2:
            evict2 = True
        if how == "add" and not ret and norm(c) in set(got):
            dup = True
        for x in gone + [b_ for b_ in batch if not any(y is b_ for y in ar)]:
            cx = norm(x.costs_signed)
            if not any(g == cx or oracles.odom(g, cx) == 1 for g in got):
                ctx.violation("add/lost_without_dominator", "a rejected/evicted solution is neither dominated by nor "
                              "equal to a member", wit())
                return None
    if evict2 or dup:
        ctx.nontrivial((kind, repr(eps), tuple(map(tuple, seq))))
    if evict2:
        ctx.count("histories_with_multi_eviction")
    if dup:
        ctx.count("histories_with_duplicate_rejection")
    return set(norm(x) for x in content(ar))


def gen_history(r, length, m, kind):
    style = r.choice(["grid", "grid", "dyadic", "chains", "dec7"])
    seq = []
    for _ in range(length):
        if seq and r.random() < 0.2:
            seq.append(list(r.choice(seq)))
            continue
        if style == "chains" and seq and r.random() < 0.6:
            b = r.choice(seq)
            d = r.choice([-1.0, 1.0, -0.5, 0.5])
            seq.append([x + d for x in b[:-1]] + [b[-1]])
            continue
        if kind in ("pareto", "shared_pareto") and seq and m >= 2 and r.random() < 0.08:
            # a trade-off in the last digits: distinct, mutually non-dominated, nearly equal
            b = r.choice(seq)
            i_, j_ = r.sample(range(m), 2)
            d_ = max(abs(b[i_]), abs(b[j_]), 1.0) * r.choice([1e-12, 1e-10, 4e-16])
            v = list(b[:-1])
            v[i_] += d_
            v[j_] -= d_
            if v[i_] != b[i_] and v[j_] != b[j_]:
                seq.append(v + [b[-1]])
                continue
        c = gen.cost_vector(r, m, "grid" if style == "chains" else style)
        mk_ = gen.marker_value(r, 0.25, signed=True)
        if any(list(o[:-1]) == list(c) and abs(o[-1]) == abs(mk_) and o[-1] != mk_ for o in seq):
            mk_ = abs(mk_)          # -v and +v on identical objectives would be "the same offer" twice: not generated
        seq.append(c + [mk_])
    # -v and +v on identical objectives are one offer as far as this property can tell (equal violation, equal objectives), but two
    # different lists for the archive's duplicate test: such twins are not generated, whichever path produced them
    first = {}
    for e_ in seq:
        k_ = (tuple(e_[:-1]), oracles.marker(e_[-1]))
        if k_ in first and first[k_] != e_[-1]:
            e_[-1] = first[k_]
        first.setdefault(k_, e_[-1])
    return seq


def run_case(ctx, name, params):
    if name == "default_first":
        r = ctx.rng("df", params["seed"])
        for m in (1, 2, 3, 4, 6, 2, 1, 5):
            for rep in range(4):
                seq = gen_history(r, r.randint(3, 25), m, "default")
                if not all(separated(a, b) for a, b in itertools.combinations(seq, 2)):
                    continue
                drive(ctx, "default", [0.1, 0.1], seq, "default_first")
                ctx.count("default_comparator_histories_in_ascending_objective_count")
        ctx.count("cases")
        return
    if name == "history":
        r = ctx.rng("h", params["seed"])
        m = r.randint(1, 4)
        kind = r.choice(["pareto", "epsilon", "epsilon", "default", "shared_pareto"])
        eps = None
        if kind == "default":
            eps = [0.1, 0.1]
        if kind == "epsilon":
            k = r.randint(1, m)
            eps = [r.choice([0.01, 0.1, 0.5, 1.0, 0.25, 2.0]) for _ in range(k)]
        length = r.randint(1, params["max_len"])
        seq = gen_history(r, length, m, kind)
        if kind in ("pareto", "shared_pareto") and r.random() < 0.2:
            ks = [r.choice([0, -300, 300, -1000, 900, r.randint(-1000, 900)]) for _ in range(m)]      # exact rescaling per objective
            seq = [[c[d] * 2.0 ** ks[d] for d in range(m)] + [c[-1]] for c in seq]
            ctx.count("histories_with_rescaled_objectives")
        if kind in ("epsilon", "default"):
            ok = all(separated(a, b) for a, b in itertools.combinations(seq, 2))
            if not ok:
                ctx.count("epsilon_history_unseparated_skipped")
                return
        final = drive(ctx, kind, eps, seq, "history")
        ctx.count("cases")
        if final is None:
            return
        for _ in range(2):
            perm = list(seq)
            r.shuffle(perm)
            f2 = drive(ctx, kind, eps, perm, "perm")
            ctx.count("order_independence_checks")
            if f2 is not None and f2 != final:
                ctx.violation("add/order_dependent", "final content depends on the order of the additions",
                              {"comparator": kind, "eps": eps, "seq": seq, "perm": perm})
                return
        ctx.sample({"comparator": kind, "eps": eps, "offered": seq[:8], "final": sorted(final)[:6]}, "history")
    elif name == "exhaustive_small":
        vecs = [[float(a), float(b), mk] for a in (0, 1, 2) for b in (0, 1, 2) for mk in (0,)] + \
               [[0.0, 0.0, True], [1.0, 1.0, True], [2.0, 0.0, 0.5]]
        L = params["length"]
        firsts = [params["first"]] if "first" in params else range(len(vecs))
        n = 0
        for f in firsts:
            for rest in itertools.product(range(len(vecs)), repeat=L - 1):
                seq = [vecs[f % len(vecs)]] + [vecs[k] for k in rest]
                for kind, eps in (("pareto", None), ("epsilon", [0.5])):
                    drive(ctx, kind, eps, seq, "exh")
                n += 1
                ctx.count("cases")
        ctx.sample({"workload": name, "length": L, "sequences": n}, "exhaustive_small", 1)
    elif name == "truncate":
        r = ctx.rng("t", params["seed"])
        n = r.randint(1, 25)
        ar = make_archive("pareto")
        # an antichain so that everything is retained
        members = []
        for i in range(n):
            ind = _ind([float(i), float(n - i), 0])
            ind.features["score"] = r.choice([float(r.randint(0, 4)), r.uniform(0, 1), float("inf")])
            ar.add(ind)
            members.append(ind)
        if len(ar) != n:
            ctx.violation("add/content/antichain", "antichain not fully retained", {"n": n, "len": len(ar)})
            return
        size = r.choice([0, 1, n, r.randint(0, n + 3), r.randint(1, n + 3)])
        larger = r.random() < 0.8
        before = list(ar)
        try:
            if larger:
                ar.truncate(size, "score")
            else:
                ar.truncate(size, "score", larger_preferred=False)
        except Exception as e:
            ctx.violation("truncate/exception", "Archive.truncate raised %r" % e, {"n": n, "size": size})
            return
        ctx.count("truncate_calls")
        kept = list(ar)
        wit = lambda: {"scores": [i.features["score"] for i in before], "size": size, "larger_preferred": larger,
                       "kept": [i.features["score"] for i in kept]}
        if not all(any(k is b for b in before) for k in kept) or len({id(k) for k in kept}) != len(kept):
            ctx.violation("truncate/not_subset", "kept members are not a sub-list of the previous members", wit())
            return
        if len(kept) != min(size, n):
            ctx.violation("truncate/size", "kept %d members, expected %d" % (len(kept), min(size, n)), wit())
            return
        allv = sorted((i.features["score"] for i in before), reverse=larger)
        if sorted((i.features["score"] for i in kept), reverse=larger) != allv[:len(kept)]:
            ctx.violation("truncate/selection", "kept members are not those with the %s feature values"
                          % ("largest" if larger else "smallest"), wit())
            return
        if size < n:
            ctx.nontrivial(("tr", n, size, larger, tuple(i.features["score"] for i in before)))
        ctx.count("cases")
    elif name == "insitu":
        from artap.archive import Archive
        r = ctx.rng("is", params["seed"])
        setup = insitu.random_setup(r, algo=params["algo"], max_N=12, max_G=5, families=["unit", "mixed", "neg", "asym"])
        if setup["m"] == 1:
            setup["m"] = 2
            setup["criteria"] = setup["criteria"] + ["minimize"]
        pt = Patches()

        def inv(ar, where):
            cs = [tuple(i.costs_signed) for i in ar]
            ctx.count("insitu_archive_invariant_checks")
            for a, b in itertools.combinations(cs, 2):
                if oracles.marker(a[-1]) == oracles.marker(b[-1]) and not separated(a, b):
                    continue
                if norm(a) == norm(b):
                    ctx.violation("insitu/duplicate_member", "archive inside %s holds one cost vector twice" % setup["algo"],
                                  {"a": a, "b": b, "where": where})
                    return
                if oracles.odom(a, b) != 0:
                    ctx.violation("insitu/dominated_member", "archive inside %s holds a dominated member" % setup["algo"],
                                  {"a": a, "b": b, "where": where})
                    return

        def mk_add(orig):
            def add(self, individual, *a, **kw):
                ret = orig(self, individual, *a, **kw)
                ctx.count("insitu_add_calls")
                member = any(x is individual for x in self)
                if bool(ret) != member:
                    ctx.violation("add/return_value", "in-run add() returned %r, member=%r" % (ret, member),
                                  {"algo": setup["algo"]})
                inv(self, "add")
                return ret
            return add

        def mk_tr(orig):
            def truncate(self, size, getter, larger_preferred=True, *a, **kw):
                before = list(self)
                res = orig(self, size, getter, larger_preferred, *a, **kw)
                ctx.count("insitu_truncate_calls")
                kept = list(self)
                if len(kept) != min(size, len(before)) or not all(any(k is b for b in before) for k in kept):
                    ctx.violation("truncate/size", "in-run truncate kept %d of %d for size %d" % (len(kept), len(before), size),
                                  {"algo": setup["algo"]})
                elif len({id(b.features) for b in before}) == len(before):
                    vals = sorted((b.features[getter] for b in before), reverse=larger_preferred)
                    if sorted((k.features[getter] for k in kept), reverse=larger_preferred) != vals[:len(kept)]:
                        ctx.violation("truncate/selection", "in-run truncate did not keep the largest feature values",
                                      {"algo": setup["algo"], "values": vals})
                return res
            return truncate
        pt.wrap_attr(Archive, "add", mk_add)
        pt.wrap_attr(Archive, "truncate", mk_tr)
        try:
            p, a, err = insitu.run_one(setup)
        finally:
            pt.restore()
        ctx.count("insitu_runs")
        if err is not None:
            ctx.count("insitu_runs_aborted")
        ctx.count("cases")


def requirements(ctx):
    ctx.require("add_calls", 5000)
    ctx.require("histories_with_multi_eviction", 20)
    ctx.require("histories_with_duplicate_rejection", 20)
    ctx.require("order_independence_checks", 100)
    ctx.require("truncate_calls", 50)
    ctx.require("insitu_add_calls", 100)
