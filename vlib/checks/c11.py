"""C11 — a crash at any moment leaves the SQLite store readable and consistent."""
import os
import re
import shutil
import signal
import subprocess
import sys
import time

from .. import core, crash

PID = "C11"
LEVEL = "fault_enumeration"
RULE = ("writers (sweep of 6 designs, NSGA-II 4x3 serial, NSGA-II 6x3 with 3 worker threads, eps-MOEA 4x2, OMOPSO 4x2, SMPSO 4x2, one sync_all of 450 recorded designs carrying ~3 MB of custom data in a single transaction, a sweep under lock contention, and a sweep by a second session that re-opens the file of a finished first session with the id counter of a fresh process) with an SQLite store in "
        "default thread-safe mode, created before crash points start counting, are killed (a) by os._exit at the k-th Python-level "
        "event: every sqlite3 connect, the moment before/after every execute and commit, objective entry/exit, return of every "
        "synchronisation (quick: every 3rd event of the serial writers, every 5th of the others; thorough: every event); (b) by "
        "SIGKILL from the parent at seeded wall-clock instants; (b2) by the kernel (SIGXFSZ via RLIMIT_FSIZE) inside the write() that "
        "grows the database file, i.e. strictly inside a commit, leaving a hot journal; (c, thorough) by strace-injected SIGKILL at the k-th "
        "pwrite64/unlink/ftruncate syscall, i.e. inside SQLite's commit. Each death is followed by a post-mortem: view opens, "
        "definitions intact, every returned synchronisation present with matching costs, no partial row, integrity_check ok. "
        "non-trivial = death after at least one row was written; distinct = distinct (writer, instrument, crash point)")
ASSUMPTIONS = ["process death only (the code sets synchronous=0; power loss is out of scope)",
               "the RET log line is written with a single write() on an O_APPEND descriptor right after sync_individual returns"]
SHARDS = {"quick": 8, "thorough": 16}
WATCHDOG = {"quick": 1200, "thorough": 3300}
CASES_AFTER_VIOLATION = 10
SEED = 20260926


def _preimport():
    """children are forked: import everything the writers need once, in the parent"""
    from .. import hooks, insitu
    hooks.import_all_artap()
    import artap.algorithm_sweep, artap.algorithm_NSGAII, artap.algorithm_genetic  # noqa


def _paths(tag):
    d = os.path.join(core.scratch_dir(), "c11-%d-%s" % (os.getpid(), tag))
    shutil.rmtree(d, ignore_errors=True)
    os.makedirs(d)
    # the store lives where the user puts it: file and directory names with blanks and with the characters that mean something in
    # URIs, globs and SQL ('#', '%41', '?', '&', "'", brackets) are ordinary names on this file system
    names = ["store.sqlite", "store.sqlite", "run#3.sqlite", "yield%95 [a]+.sqlite", "q?mode=ro&x=1.sqlite", "it's.db", "exp #2/data.sqlite"]
    name = names[sum(tag.encode()) % len(names)]
    if "/" in name:
        os.makedirs(os.path.join(d, os.path.dirname(name)))
    return d, os.path.join(d, name), os.path.join(d, "ret.log")


def fork_writer(kind, path, retlog, kill_at=None, count_file=None, ready_fd=None, fsize_extra=None):
    """returns child pid.  Child exits 77 when it killed itself at event kill_at, 0 when the writer completed."""
    sys.stdout.flush()
    pid = os.fork()
    if pid:
        return pid
    code = 3
    try:
        n = [0]
        commits = [0]

        def on_event(k):
            n[0] += 1
            if kill_at is not None and n[0] == kill_at:
                os._exit(77)
            if k == "sql:commit:before":
                commits[0] += 1
                if fsize_extra is not None and commits[0] == fsize_extra[0]:
                    # from now on the kernel kills the writer (SIGXFSZ) inside the first write() that reaches beyond the
                    # limit: "low" = one page (dies while writing the rollback journal or the first database page of this
                    # commit), "high" = the last page of the database file (dies after the journal is complete and part of
                    # the database pages are written) -- either way strictly inside SQLite's commit
                    import resource
                    resource.setrlimit(resource.RLIMIT_CORE, (0, 0))
                    signal.signal(signal.SIGXFSZ, signal.SIG_DFL)
                    soft, hard = resource.getrlimit(resource.RLIMIT_FSIZE)
                    size = os.path.getsize(path)
                    lim = 4096 if fsize_extra[1] == "low" else max(4096, size - 4096) if fsize_extra[1] == "high" else max(4096, size // 2)
                    resource.setrlimit(resource.RLIMIT_FSIZE, (lim, hard))

        def marker():
            if ready_fd is not None:
                os.write(ready_fd, b"R")
            pass
        crash.run_writer(kind, path, retlog, SEED, on_event=on_event, marker=marker)
        if count_file:
            with open(count_file, "w") as f:
                f.write("%d %d" % (n[0], commits[0]))
        code = 0
    except BaseException:
        import traceback
        traceback.print_exc(file=sys.__stderr__)
        code = 3
    finally:
        os._exit(code)


def wait(pid, timeout=120):
    t0 = time.time()
    while True:
        p, st = os.waitpid(pid, os.WNOHANG)
        if p:
            if os.WIFSIGNALED(st):
                return -os.WTERMSIG(st)
            return os.WEXITSTATUS(st)
        if time.time() - t0 > timeout:
            os.kill(pid, signal.SIGKILL)
            os.waitpid(pid, 0)
            return None
        time.sleep(0.002)


_CAL = {}
_NCOMMIT = {}
_RETSIZE = {}


def calibrate(kind):
    if kind not in _CAL:
        _preimport()
        d, path, retlog = _paths("cal-" + kind)
        cf = os.path.join(d, "count")
        t0 = time.time()
        rc = wait(fork_writer(kind, path, retlog, count_file=cf), timeout=240)     # generous: a loaded machine is not a hung writer
        dur = time.time() - t0
        n, ncommit = (map(int, open(cf).read().split())) if rc == 0 and os.path.exists(cf) else (0, 0)
        try:
            _RETSIZE[kind] = os.path.getsize(retlog)
        except OSError:
            _RETSIZE[kind] = 0
        shutil.rmtree(d, ignore_errors=True)
        _CAL[kind] = (n, dur)
        _NCOMMIT[kind] = ncommit
    return _CAL[kind]


def cases(ctx):
    for kind in crash.WRITERS:
        total, dur = calibrate(kind)
        if total == 0:
            yield "calibration_failed", {"writer": kind}
            continue
        serial = kind in ("sweep", "nsga2")
        step = 1 if (not ctx.quick or serial) else 2
        if kind == "bulk_sync_all":
            step = ctx.pick(45, 9)          # ~900 execute events in one transaction: a sample of them
        off = ctx.seed % step
        for k in range(1 + off, total + 1 + (10 if kind == "nsga2_threads" else 0), step):
            yield "pyevent", {"writer": kind, "k": k, "total": total}
        yield "complete", {"writer": kind}
    for kind in ("sweep", "nsga2", "epsmoea", "bulk_sync_all"):
        calibrate(kind)
        for i in range(1, _NCOMMIT.get(kind, 0) + 1, ctx.pick(2, 1)):
            for mode in ("low", "high", "mid"):
                yield "fsize", {"writer": kind, "commit": i, "mode": mode}
    rr = ctx.rng("kill")
    for i in range(ctx.pick(100, 800)):
        kind = ["nsga2_threads", "nsga2_threads", "epsmoea", "sweep", "nsga2", "omopso", "smpso", "bulk_sync_all"][i % 8]
        yield "sigkill", {"writer": kind, "frac": rr.random(), "i": i}
    if not ctx.quick:
        for kind in ("sweep", "nsga2", "epsmoea"):
            for sc in SYSCALLS.split(","):
                for part in range(8):
                    yield "strace", {"writer": kind, "syscall": sc, "part": part, "parts": 8}


def run_case(ctx, name, params):
    kind = params["writer"]
    if name == "calibration_failed":
        # the writer does not finish (e.g. it spins on a lock): kill it after a while -- that is a process death at an
        # arbitrary instant, so the post-mortem still applies; if the store is fine the run is inconclusive, not held
        d, path, retlog = _paths("hung-" + kind)
        try:
            rc = wait(fork_writer(kind, path, retlog), timeout=8)
            wit = lambda extra=None: {"writer": kind, "instrument": "watchdog_kill_of_hung_writer", "child_exit": rc, "extra": extra}
            if rc == 3:
                ctx.violation("writer/exception", "the writer raised an exception (not a crash point)", wit())
            elif crash.verify(ctx, path, retlog, wit):
                ctx.not_reached("writer %s did not complete its calibration run (exit %r); store was consistent when killed" % (kind, rc))
        finally:
            shutil.rmtree(d, ignore_errors=True)
        return
    if name in ("pyevent", "complete"):
        k = params.get("k")
        d, path, retlog = _paths("%s-%s" % (kind, k))
        try:
            rc = wait(fork_writer(kind, path, retlog, kill_at=k), timeout=max(60, 100 * calibrate(kind)[1]))
            wit = lambda extra=None: {"writer": kind, "instrument": "python_event", "crash_at_event": k, "child_exit": rc, "extra": extra}
            if rc is None:
                ctx.not_reached("writer %s did not finish within the watchdog (event %s)" % (kind, k))
                return
            if rc == 3:
                ctx.violation("writer/exception", "the writer raised an exception (not a crash point)", wit())
                return
            ctx.count("crash_children")
            if rc == 77:
                ctx.count("deaths_at_python_events")
            else:
                ctx.count("writers_completed")
            if crash.verify(ctx, path, retlog, wit):
                if crash.read_retlog(retlog):
                    ctx.nontrivial((kind, "py", k))
                ctx.count("cases")
                ctx.sample({"writer": kind, "instrument": "python_event", "crash_at_event": k, "of_events": params.get("total"),
                            "returned_syncs": len(crash.read_retlog(retlog))}, "py_" + kind, 1)
        finally:
            shutil.rmtree(d, ignore_errors=True)
    elif name == "sigkill":
        total, dur = calibrate(kind)
        d, path, retlog = _paths("kill-%d" % params["i"])
        r_, w_ = os.pipe()
        try:
            pid = fork_writer(kind, path, retlog, ready_fd=w_)
            os.close(w_)
            ready = os.read(r_, 1)            # the store exists and crash points are armed
            delay = params["frac"] * min(max(dur, 0.02), 3.0) * 1.1
            goal = _RETSIZE.get(kind, 0)
            if goal >= 200 and params["i"] % 2 == 0:
                # logical clock instead of wall clock (a loaded machine makes calibrated delays meaningless): SIGKILL as soon as the
                # writer's log of returned synchronisations has reached the seeded fraction of its calibrated length
                want = params["frac"] * goal
                t_end = time.time() + max(20.0, 40 * dur)
                while time.time() < t_end:
                    try:
                        if os.path.getsize(retlog) >= want:
                            break
                    except OSError:
                        pass
                    if os.waitid(os.P_PID, pid, os.WEXITED | os.WNOHANG | os.WNOWAIT) is not None:
                        break
                    time.sleep(0.0003)
                delay = -1.0
            else:
                time.sleep(delay)
            try:
                os.kill(pid, signal.SIGKILL)
            except ProcessLookupError:
                pass
            rc = wait(pid)
            wit = lambda extra=None: {"writer": kind, "instrument": "sigkill", "delay_s": delay, "child_exit": rc, "extra": extra}
            if ready != b"R":
                ctx.count("sigkill_before_ready")
                return
            ctx.count("crash_children")
            if rc == -signal.SIGKILL:
                ctx.count("deaths_by_sigkill")
            else:
                ctx.count("writers_completed")
            if crash.verify(ctx, path, retlog, wit):
                if crash.read_retlog(retlog):
                    ctx.nontrivial((kind, "kill", params["i"]))
                ctx.count("cases")
                ctx.sample({"writer": kind, "instrument": "sigkill", "delay_s": round(delay, 4),
                            "returned_syncs": len(crash.read_retlog(retlog))}, "kill_" + kind, 1)
        finally:
            os.close(r_)
            shutil.rmtree(d, ignore_errors=True)
    elif name == "fsize":
        _preimport()
        d, path, retlog = _paths("fs-%s-%d-%s" % (kind, params["commit"], params["mode"]))
        try:
            rc = wait(fork_writer(kind, path, retlog, fsize_extra=(params["commit"], params["mode"])), timeout=120)
            wit = lambda extra=None: {"writer": kind, "instrument": "rlimit_fsize", "armed_at_commit": params["commit"],
                                      "limit": params["mode"], "child_exit": rc, "extra": extra}
            if rc is None:
                ctx.not_reached("writer %s under RLIMIT_FSIZE did not finish" % kind)
                return
            ctx.count("crash_children")
            if rc == -signal.SIGXFSZ:
                ctx.count("deaths_inside_file_growing_write")
                if os.path.exists(path + "-journal"):
                    ctx.count("deaths_leaving_a_hot_journal")
            elif rc == 3:
                ctx.count("writers_failed_with_EFBIG")     # the limit hit a write outside SQLite (counted, still post-mortemed)
            else:
                ctx.count("writers_completed")
            if crash.verify(ctx, path, retlog, wit):
                if rc == -signal.SIGXFSZ:
                    ctx.nontrivial((kind, "fsize", params["commit"], params["mode"]))
                ctx.count("cases")
                ctx.sample({"writer": kind, "instrument": "rlimit_fsize", "armed_at_commit": params["commit"], "limit": params["mode"], "child_exit": rc,
                            "returned_syncs": len(crash.read_retlog(retlog))}, "fsize_" + kind, 1)
        finally:
            shutil.rmtree(d, ignore_errors=True)
    elif name == "strace":
        run_strace(ctx, kind, params["syscall"], params["part"], params["parts"])


SYSCALLS = "pwrite64,unlink,ftruncate"


def writer_cmd(kind, path, retlog):
    return [sys.executable, "-B", "-W", "ignore", "-m", "vlib.crash", kind, path, retlog, str(SEED)]


_STCAL = {}


def strace_calibrate(ctx, kind):
    """per syscall: how many happened before the marker kill(pid, 0) (store creation) and in total"""
    if kind in _STCAL:
        return _STCAL[kind]
    _STCAL[kind] = None
    if shutil.which("strace") is None:
        return None
    d, path, retlog = _paths("st-cal-" + kind)
    log = os.path.join(d, "trace")
    try:
        subprocess.run(["strace", "-f", "-o", log, "-e", "trace=%s,kill" % SYSCALLS] + writer_cmd(kind, path, retlog),
                       env=dict(os.environ), cwd=core.VERIF, capture_output=True, timeout=300)
        lines = open(log).read().splitlines() if os.path.exists(log) else []
    except Exception:
        lines = []
    finally:
        shutil.rmtree(d, ignore_errors=True)
    before = {s: 0 for s in SYSCALLS.split(",")}
    total = {s: 0 for s in SYSCALLS.split(",")}
    seen_marker = 0
    for ln in lines:
        m = re.match(r"^\d+\s+(\w+)\(", ln)
        if not m:
            continue
        sc = m.group(1)
        if sc == "kill" and ", 0)" in ln:
            seen_marker += 1
            continue
        if sc in total:
            total[sc] += 1
            if seen_marker == 0:
                before[sc] += 1
    if seen_marker < 2 or sum(total.values()) == 0:
        return None
    _STCAL[kind] = (before, total)
    return _STCAL[kind]


def run_strace(ctx, kind, sc, part, parts):
    cal = strace_calibrate(ctx, kind)
    if cal is None:
        ctx.count("strace_unavailable")
        ctx.extra["strace_note"] = "calibration under strace did not see the marker syscalls (strace missing or ptrace not permitted)"
        return
    before, total = cal
    if part == 0:
        ctx.count("strace_syscalls_in_scope_%s_%s" % (kind, sc), total[sc] - before[sc])
    if True:
        ks = list(range(before[sc] + 1, total[sc] + 1))
        if len(ks) > 240:
            ks = ks[::max(1, len(ks) // 240)]
        ks = ks[part::parts]
        for k in ks:
            d, path, retlog = _paths("st-%s-%s-%d" % (kind, sc, k))
            try:
                p = subprocess.run(["strace", "-f", "-o", "/dev/null", "-e",
                                    "inject=%s:signal=KILL:when=%d" % (sc, k)] + writer_cmd(kind, path, retlog),
                                   env=dict(os.environ), cwd=core.VERIF, capture_output=True, timeout=300)
                wit = lambda extra=None: {"writer": kind, "instrument": "strace", "syscall": sc, "when": k, "exit": p.returncode, "extra": extra}
                ctx.count("crash_children")
                if p.returncode in (-9, 137) or p.returncode != 0:
                    ctx.count("deaths_inside_syscalls")
                else:
                    ctx.count("writers_completed")
                if crash.verify(ctx, path, retlog, wit):
                    ctx.nontrivial((kind, "strace", sc, k))
                    ctx.count("cases")
                    ctx.sample({"writer": kind, "instrument": "strace", "syscall": sc, "when": k,
                                "journal_left_behind": os.path.exists(path + "-journal")}, "strace_" + kind, 2)
                else:
                    return
            finally:
                shutil.rmtree(d, ignore_errors=True)


def requirements(ctx):
    ctx.require("post_mortems", 100)
    ctx.require("post_mortems_of_a_resumed_session", 10)
    ctx.require("deaths_at_python_events", 80)
    ctx.require("returned_syncs_checked", 500)
    ctx.require("deaths_by_sigkill", 10)
    ctx.require("deaths_inside_file_growing_write", 20)
    ctx.require("deaths_leaving_a_hot_journal", 5)
    if ctx.tier == "thorough" and not ctx.counters.get("strace_unavailable"):
        ctx.require("deaths_inside_syscalls", 20)
