"""C07 — parallel evaluation is equivalent to serial evaluation under every explored schedule."""
import json
import os
import sqlite3
import threading
import time

from .. import core, gen, hooks, insitu, rng as vrng, sched, sqlproxy
from ..hooks import Patches
from .c10 import norm, same, snapshot

PID = "C07"
LEVEL = "exploration"
RULE = ("batches of 1..12 designs evaluated with 2..6 worker threads under a controlled scheduler: gates at objective entry/exit, "
        "sync_individual entry/exit and before/after every SQL execute/commit, grant order chosen by seeded policies (uniform, "
        "round-robin, LIFO, starve-one, PCT-style priorities), SQLite busy timeout shortened to 50 ms so that lock contention and "
        "the OperationalError retry path occur; plus runs under sys.monitoring LINE-event yield injection inside artap code and "
        "short NSGA-II / eps-MOEA / OMOPSO / SMPSO / PSOGA runs with max_processes>1 compared with the serial run of the same seed; judged batches also on an algorithm object that had already evaluated a batch under another store (store attached late / replaced). Oracle: serial evaluation of the same vectors on a fresh problem; one objective "
        "call per design; one row per design equal to the final object. non-trivial = schedule in which >=2 designs were inside the "
        "objective/store at the same time; distinct = distinct grant-order signature")
ASSUMPTIONS = ["interleavings are explored at gate and statement granularity; nothing inside one statement or inside C code holding "
               "the GIL can be produced", "the retry protocol itself is judged by C06; here batches with transient failures are only compared serial vs parallel (outcome, calls per design, failed list)"]
SHARDS = {"quick": 4, "thorough": 16}
WATCHDOG = {"quick": 900, "thorough": 3000}


def cases(ctx):
    pol = sched.Scheduler.POLICIES
    for i in range(ctx.pick(96, 9600)):
        yield "gated", {"seed": ctx.subseed("g", i), "policy": pol[i % len(pol)], "store": ["dummy", "sqlite", "sqlite"][i % 3],
                        "gates": ["obj", "obj+sync", "obj+sync+sql", "sync+sql", "sync+slowtxn"][(i // 3) % 5]}
    for i in range(ctx.pick(24, 3300)):
        yield "lines", {"seed": ctx.subseed("l", i), "store": ["dummy", "sqlite"][i % 2]}
    for i in range(ctx.pick(24, 2400)):
        yield "flaky", {"seed": ctx.subseed("f", i), "policy": pol[i % len(pol)]}
    for i in range(ctx.pick(12, 960)):
        yield "nsga2", {"seed": ctx.subseed("n", i), "policy": pol[i % len(pol)],
                        "algo": ["nsga2", "epsmoea", "nsga2", "omopso", "smpso", "psoga"][i % 6]}


def make_fn(r, n, m):
    ws = [[r.uniform(-2, 2) for _ in range(n)] for _ in range(m)]
    return lambda x: [sum(w * v * v + w for w, v in zip(ws[j], x)) + 0.123456789 * j for j in range(m)]


def expected_row(ind):
    s = snapshot(ind)
    s["state"] = "evaluated"
    s["id"] = ind.id
    return s


def check_rows(ctx, path, batch, wit, proxy=None):
    conn = sqlproxy.REAL_CONNECT(path)
    rows = {rid: json.loads(js) for rid, js in conn.execute("SELECT id, individual FROM individuals").fetchall()}
    conn.close()
    for ind in batch:
        ctx.count("row_checks")
        row = rows.get(ind.id)
        if row is None:
            ctx.violation("store/missing_row", "an evaluated design has no row in the individuals table after evaluate returned",
                          wit({"id": ind.id, "rows": len(rows)}))
            return False
        exp = expected_row(ind)
        for k, v in exp.items():
            if not same(norm(row.get(k)), v):
                ctx.violation("store/stale_or_partial_row/" + k, "persisted %s of a design differs from its final data" % k,
                              wit({"id": ind.id, "field": k, "row": row.get(k), "final": v}))
                return False
    return True


def run_case(ctx, name, params):
    from artap.individual import Individual
    from artap.algorithm import DummyAlgorithm
    from artap.datastore import SqliteDataStore
    r = ctx.rng(name, params["seed"])
    if name in ("gated", "lines"):
        n = r.randint(1, 4)
        m = r.randint(1, 3)
        B = r.randint(1, 12)
        workers = r.randint(2, 6)
        crit = [r.choice(["minimize", "maximize"]) for _ in range(m)]
        fn = make_fn(r, n, m)
        cons = (lambda x: [x[0]]) if r.random() < 0.3 else None
        vecs = [[r.uniform(-1, 1) for _ in range(n)] for _ in range(B)]
        if B > 2 and r.random() < 0.3:
            vecs[-1] = list(vecs[0])            # two designs with the same vector are still two designs
        # ---- serial reference on a fresh problem
        p0 = hooks.make_problem(n=n, m=m, criteria=crit, fn=fn, cons=cons, bounds=[[-1.0, 1.0]] * n)
        a0 = DummyAlgorithm(p0)
        ref = [Individual(list(v)) for v in vecs]
        a0.evaluate(ref)
        # ---- parallel run
        use_db = params["store"] == "sqlite"
        gates = params.get("gates", "")
        S = None
        inj = None
        if name == "gated":
            S = sched.Scheduler(params["seed"], params["policy"], expected=min(workers, B))
        eg = xg = None
        quiet = [False]          # True while a preliminary batch (not part of the judged schedule) is evaluated
        if S is not None:
            def eg(c):
                if quiet[0]:
                    return
                S.note("obj_enter")
                if "obj" in gates:
                    S.gate("obj_enter")

            def xg(c):
                if quiet[0]:
                    return
                if "obj" in gates:
                    S.gate("obj_exit")
                S.note("obj_exit")
        poison = set()

        def script(call_no, vec, individual):
            if individual.id in poison:
                return ValueError("warm-up design whose evaluation aborts the batch")
            return None
        p1 = hooks.make_problem(n=n, m=m, criteria=crit, fn=fn, cons=cons, bounds=[[-1.0, 1.0]] * n, entry_gate=eg, exit_gate=xg,
                                script=script)
        path = os.path.join(core.scratch_dir(), "c07-%d-%d.sqlite" % (os.getpid(), params["seed"] % 10 ** 9))
        pt = Patches()
        proxy = None
        in_store = [0, 0]
        lk = threading.Lock()
        try:
            if use_db:
                if S is not None:
                    slow = random_slow = ctx.rng("slow", params["seed"])

                    def on_event(nr, kind, sql):
                        if quiet[0]:
                            return
                        if "sql" in gates and kind != "connect":
                            S.gate("sql:" + kind, bounded=True)
                        if "slowtxn" in gates and kind == "commit:before":
                            # a slow holder: the write lock is kept for many busy time-outs of the other workers
                            with lk:
                                go = slow.random() < 0.4
                            if go:
                                ctx.count("slow_transactions_injected")
                                time.sleep(0.4)
                    proxy = sqlproxy.Proxy(on_event=on_event, timeout=0.05)
                else:
                    proxy = sqlproxy.Proxy(timeout=0.05)
                default_store = p1.data_store
                p1.data_store = SqliteDataStore(p1, database_name=path)   # created before the proxy: not part of the schedule
                proxy.install()

                def mk_sync(orig):
                    tl = threading.local()

                    def sync_individual(self, individual, *a, **kw):
                        if getattr(tl, "depth", 0) > 0 or quiet[0]:   # the retry path re-enters: not a new activation
                            return orig(self, individual, *a, **kw)
                        tl.depth = 1
                        with lk:
                            in_store[0] += 1
                            in_store[1] = max(in_store[1], in_store[0])
                        if S is not None and "sync" in gates:
                            S.gate("sync_enter")
                        try:
                            return orig(self, individual, *a, **kw)
                        finally:
                            if S is not None and "sync" in gates:
                                S.gate("sync_exit")
                            with lk:
                                in_store[0] -= 1
                            tl.depth = 0
                    return sync_individual
                pt.wrap_attr(SqliteDataStore, "sync_individual", mk_sync)
            if r.random() < 0.3:
                # declared problem options that concern other subsystems (the remote executor's time limit ...) at the edges of their
                # ranges: a batch evaluated by worker threads does not depend on them
                try:
                    p1.options["time_out"] = r.choice([0.001, 0.01, 0.05])
                    ctx.count("batches_with_a_tiny_time_out_option")
                except Exception:
                    pass
            a1 = DummyAlgorithm(p1)
            a1.options["max_processes"] = workers
            if use_db and r.random() < 0.4:
                # the store is attached to the problem (or replaced by another one) only after the algorithm object has already
                # evaluated a batch: "persists every evaluated design" speaks about the store attached when the batch is evaluated
                final_store = p1.data_store
                how = r.choice(["attached_late", "replaced"])
                quiet[0] = True
                try:
                    p1.data_store = default_store if how == "attached_late" else SqliteDataStore(p1, database_name=path + ".first")
                    a1.options["max_processes"] = r.choice([1, workers])
                    a1.evaluate([Individual([r.uniform(-1, 1) for _ in range(n)]) for _ in range(r.randint(1, 3))])
                    ctx.count("judged_batches_after_store_" + how)
                finally:
                    quiet[0] = False
                    a1.options["max_processes"] = workers
                    p1.data_store = final_store
                    del p1.calls[:]
            stale_address = None
            if r.random() < 0.35:
                # an earlier parallel batch on the same algorithm object was aborted by an exception in a worker; its designs
                # are gone (freed) when the judged batch is built, so nothing of it may influence the judged batch
                import gc
                import time as _t
                warm = [Individual([r.uniform(-1, 1) for _ in range(n)]) for _ in range(r.randint(2, 6))]
                pz_ = r.choice(warm)
                poison.add(pz_.id)
                stale_address = id(pz_)
                del pz_
                aj = hooks.ActiveJobs()
                try:
                    try:
                        a1.evaluate(warm)
                    except BaseException:
                        pass
                    # the other workers of the aborted batch are still running (parked at a gate, inside the objective or in the
                    # store): nothing may be judged, and no file may be removed, before every one of them has finished
                    drained = aj.wait_idle(90.0)
                finally:
                    aj.restore()
                if not drained:
                    ctx.count("cases_abandoned_workers_of_aborted_batch_still_running")
                    if S is not None:
                        S.shutdown()
                    return
                del p1.calls[:]
                del warm
                gc.collect()
                ctx.count("aborted_warmup_batches")
                if use_db:
                    try:
                        cn = sqlproxy.REAL_CONNECT(path)
                        cn.execute("DELETE FROM individuals")
                        cn.commit()
                        cn.close()
                    except Exception:
                        pass
            batch = [Individual(list(v)) for v in vecs]
            if stale_address is not None:
                # CPython hands the memory of a freed design to a later one all the time; make sure it happens here: allocate
                # designs until one sits at the address of the design whose evaluation aborted the warm-up batch
                hold = []
                for _k in range(30000):
                    x_ = Individual(list(vecs[0]))
                    if id(x_) == stale_address:
                        batch[0] = x_
                        ctx.count("judged_designs_at_the_address_of_an_aborted_one")
                        break
                    hold.append(x_)
                del hold
            if name == "lines":
                inj = sched.YieldInjector(params["seed"], prob=r.choice([0.1, 0.3, 0.6]))
                inj.start()
            err = None
            import contextlib
            amb = contextlib.nullcontext()
            if r.random() < 0.25:
                # the caller has chosen a process-based joblib backend for its own purposes (scikit-learn users do): results are
                # reported by updating the design objects in place, so the evaluation has to stay in this process
                import joblib
                amb = joblib.parallel_backend(r.choice(["loky", "multiprocessing"]))
                ctx.count("batches_under_an_ambient_process_backend")
            try:
                with amb:
                    a1.evaluate(batch)
            except BaseException as e:
                err = e
            finally:
                if inj is not None:
                    inj.stop()
                if S is not None:
                    S.shutdown()
        finally:
            pt.restore()
            if proxy is not None:
                proxy.uninstall()
        ctx.count("schedules")
        sig = S.signature() if S is not None else None
        wit = lambda extra=None: {"batch": B, "workers": workers, "store": params["store"], "gates": gates,
                                  "policy": params.get("policy"), "mode": name, "trace_tail": (S.trace[-30:] if S else None),
                                  "extra": extra}
        try:
            if err is not None:
                ctx.violation("parallel/exception/%s" % type(err).__name__, "parallel evaluate raised %r" % err, wit())
                return
            if S is not None:
                ctx.maxi("max_overlap_in_objective", S.max_overlap)
                ctx.maxi("max_threads_parked_together", S.max_parked)
                ctx.count("grants", S.grants)
                ctx.count("bounded_gate_self_releases", S.self_releases)
                if S.max_overlap >= 2 or in_store[1] >= 2:
                    ctx.count("schedules_with_overlap")
                    ctx.nontrivial(sig)
            else:
                ctx.count("line_events", inj.events)
                ctx.count("line_yields", inj.yields)
                tids = {c.tid for c in p1.calls}
                if len(tids) >= 2:
                    ctx.count("schedules_with_overlap")
                    ctx.nontrivial(("lines", params["seed"]))
            if proxy is not None:
                ctx.count("database_locked_errors_provoked", proxy.locked_errors)
                ctx.maxi("max_threads_in_store_together", in_store[1])
            # ---- oracle: serial result per position
            by_id = {}
            for c in p1.calls:
                by_id.setdefault(c.ind_id, []).append(c)
            for pos, (b, rf) in enumerate(zip(batch, ref)):
                ctx.count("design_equivalence_checks")
                calls = by_id.get(b.id, [])
                if len(calls) != 1:
                    ctx.violation("parallel/calls_per_design", "objective called %d times for one design under threads" % len(calls),
                                  wit({"position": pos}))
                    return
                if list(calls[0].vector) != list(vecs[pos]):
                    ctx.violation("parallel/wrong_vector", "objective called with a vector that is not the design's", wit({"position": pos}))
                    return
                if b.state != rf.state or list(b.costs) != list(rf.costs) or not same(norm(b.costs_signed), norm(rf.costs_signed)) \
                        or list(b.vector) != list(rf.vector):
                    ctx.violation("parallel/differs_from_serial", "costs / signed costs / state differ from serial evaluation of the same batch",
                                  wit({"position": pos, "parallel": {"costs": b.costs, "signed": b.costs_signed, "state": str(b.state)},
                                       "serial": {"costs": rf.costs, "signed": rf.costs_signed, "state": str(rf.state)}}))
                    return
            if len(p1.calls) != B:
                ctx.violation("parallel/calls_total", "%d objective calls for %d designs" % (len(p1.calls), B), wit())
                return
            if use_db and not check_rows(ctx, path, batch, wit):
                return
            ctx.count("cases")
            ctx.sample({"mode": name, "batch": B, "workers": workers, "store": params["store"], "gates": gates, "policy": params.get("policy"),
                        "grant_order_head": list(sig[:12]) if sig else None,
                        "threads_used": len({c.tid for c in p1.calls})}, name + "_" + params["store"], 2)
        finally:
            for ext in ("", "-journal", ".first", ".first-journal"):
                try:
                    os.unlink(path + ext)
                except OSError:
                    pass
    elif name == "flaky":
        # designs whose objective fails transiently a few times (never five in a row): the serial evaluation of such a batch
        # completes with every design evaluated, so the parallel one must, too -- whatever the workers' failures look like
        # when they are interleaved (C06 judges the retry protocol itself; here only serial/parallel equivalence of the outcome)
        n = r.randint(1, 3)
        B = r.randint(3, 9)
        workers = r.randint(2, 5)
        fn = make_fn(r, n, 1)
        fails = [r.choice([0, 1, 2, 2, 3, 4]) for _ in range(B)]
        idx = {}
        seen = {}
        lk = threading.Lock()

        def script(call_no, vec, individual):
            with lk:
                k = seen.get(individual.id, 0)
                seen[individual.id] = k + 1
            if k < fails[idx[individual.id]]:
                return (RuntimeError if (k + idx[individual.id]) % 2 else TimeoutError)("scripted transient failure")
            return None
        results = []
        for mode in ("serial", "parallel"):
            S = None
            eg = None
            if mode == "parallel":
                S = sched.Scheduler(params["seed"], params["policy"], expected=min(workers, B))
                eg = lambda c: S.gate("obj_enter")
            p_ = hooks.make_problem(n=n, m=1, fn=fn, bounds=[[-1.0, 1.0]] * n, script=script, entry_gate=eg)
            vrng.install(vrng.SeededRandom(params["seed"]))
            a_ = DummyAlgorithm(p_)
            a_.options["max_processes"] = workers if mode == "parallel" else 1
            batch = [Individual([r.uniform(-1, 1) for _ in range(n)]) for _ in range(B)]
            idx.clear()
            seen.clear()
            for d, b in enumerate(batch):
                idx[b.id] = d
            err = None
            aj = hooks.ActiveJobs()
            try:
                a_.evaluate(batch)
            except BaseException as e:
                err = e
            finally:
                if S is not None:
                    S.shutdown()
                drained = aj.wait_idle(90.0)
                aj.restore()
            if not drained:
                ctx.count("cases_abandoned_workers_of_aborted_batch_still_running")
                return
            by_id = {}
            for c in p_.calls:
                by_id.setdefault(c.ind_id, []).append(c)
            results.append((err, [str(b.state) for b in batch], [len(by_id.get(b.id, [])) for b in batch], len(p_.failed),
                            [list(b.costs) == list(fn(b.vector)) for b in batch]))
        ctx.count("flaky_batch_pairs")
        (es, ss, cs_, fs, okc_s), (ep, sp, cp, fp, okc_p) = results
        wit = lambda: {"failures_per_design": fails, "workers": workers, "policy": params["policy"],
                       "serial": {"exception": repr(es), "states": ss, "calls": cs_, "failed_logged": fs},
                       "parallel": {"exception": repr(ep), "states": sp, "calls": cp, "failed_logged": fp}}
        if es is not None:
            ctx.count("flaky_serial_reference_aborted")
            return
        if sum(1 for f in fails if f) >= 2:
            ctx.nontrivial(("flaky", tuple(fails), workers, params["policy"]))
        if ep is not None:
            ctx.violation("parallel/flaky/exception_only_in_parallel", "serial evaluation of a batch with transient failures completes, "
                          "parallel evaluation raised %r" % ep, wit())
            return
        if sp != ss or cp != cs_ or fp != fs or not all(okc_p):
            ctx.violation("parallel/flaky/differs_from_serial", "states / objective calls per design / failed list differ from serial "
                          "evaluation of the same batch with the same transient failures", wit())
            return
        ctx.count("cases")
    else:
        setup = insitu.random_setup(r, algo=params.get("algo", "nsga2"), max_n=3, max_m=2, max_N=8, max_G=4, families=["unit", "mixed"])
        workers = r.randint(2, 4)
        ps, as_, es = insitu.run_one(setup)
        import random as _random
        rr_s = _random.random.__self__
        S = sched.Scheduler(params["seed"], params["policy"], expected=min(workers, setup["N"]))

        def eg(c):
            S.note("obj_enter")
            S.gate("obj_enter")

        def xg(c):
            S.gate("obj_exit")
            S.note("obj_exit")
        try:
            pp, ap, ep = insitu.run_one(setup, procs=workers, entry_gate=eg, exit_gate=xg)
        finally:
            S.shutdown()
        rr_p = _random.random.__self__
        diag = {"serial_draws": getattr(rr_s, "draws", None), "parallel_draws": getattr(rr_p, "draws", None),
                "serial_rng_threads": len(getattr(rr_s, "tids", [])), "parallel_rng_threads": len(getattr(rr_p, "tids", [])),
                "main_thread": threading.get_ident() in getattr(rr_p, "tids", []), "live_threads": threading.active_count(),
                "foreign_draw_stacks": list(vrng.FOREIGN_DRAWS[:1])}
        ctx.count("nsga2_run_pairs")
        wit = lambda extra=None: {"setup": {k: setup[k] for k in ("n", "m", "N", "G", "seed")}, "workers": workers, "policy": params["policy"], "extra": extra}
        if es is not None or ep is not None:
            if (es is None) != (ep is None):
                ctx.violation("nsga2/exception_only_in_one_mode", "serial %r / parallel %r" % (es, ep), wit())
            return
        ctx.maxi("max_overlap_in_objective", S.max_overlap)
        if S.max_overlap >= 2:
            ctx.count("schedules_with_overlap")
            ctx.nontrivial(S.signature())
        if pp.failed or ps.failed:
            ctx.violation("nsga2/failed_designs_logged", "a run whose objective never fails logged %d failed designs (serial %d)"
                          % (len(pp.failed), len(ps.failed)), wit({"diag": diag}))
            return
        if len(getattr(rr_p, "tids", [])) > 1 or len(getattr(rr_s, "tids", [])) > 1:
            # some other thread drew from the process-wide random source during one of the two runs (only the failure path of
            # Job.evaluate does that, e.g. a straggler of an earlier case): the two runs are not comparable draw by draw
            ctx.count("run_pairs_not_comparable_foreign_rng_draws")
            return
        a = [(i.population_id, list(i.vector), list(i.costs), norm(i.costs_signed)) for i in ps.individuals]
        b = [(i.population_id, list(i.vector), list(i.costs), norm(i.costs_signed)) for i in pp.individuals]
        if a != b:
            k = next((j for j in range(min(len(a), len(b))) if a[j] != b[j]), None)
            if setup["algo"] == "psoga" and k is not None and a[k][:3] == b[k][:3] and list(a[k][3][:-1]) == list(b[k][3][:-1]):
                # same design, same costs, same signed objectives -- only the feasibility marker differs: PSOGA gives both GA offspring
                # the features dict of the selected particle (`offspring.features = selected.features`); when the tournament selects
                # one particle twice, the two offspring share one dict and are evaluated at the same time, so Job.evaluate's
                # features['feasible'] of one design is read by calc_signed_costs of the other
                ctx.violation("psoga/shared_features_dict/marker_of_another_design",
                              "a PSOGA run with %d workers records a design whose feasibility marker differs from the serial run with the same "
                              "seed (vector, costs and signed objectives agree)" % workers,
                              wit({"first_difference": k, "serial": a[k], "parallel": b[k]}))
                return
            ctx.violation("nsga2/parallel_run_differs", "a %s run with %d workers records different designs/costs than the serial "
                          "run with the same seed" % (setup["algo"], workers), wit({"diag": diag, "first_difference": k, "serial": a[k] if k is not None else len(a),
                                                                    "parallel": b[k] if k is not None else len(b)}))
            return
        if len(pp.ok_calls()) != len(ps.ok_calls()):
            ctx.violation("nsga2/call_count_differs", "parallel run made %d objective calls, serial %d" % (len(pp.calls), len(ps.calls)), wit())
            return
        ctx.count("cases")
        ctx.sample({"mode": "run_pair_" + setup["algo"], "N": setup["N"], "G": setup["G"], "workers": workers, "policy": params["policy"],
                    "max_overlap": S.max_overlap}, "run_" + setup["algo"], 1)


def requirements(ctx):
    ctx.require("schedules", 40)
    ctx.require("schedules_with_overlap", 20)
    ctx.require("design_equivalence_checks", 200)
    ctx.require("row_checks", 100)
    ctx.require("judged_batches_after_store_attached_late", 3)
    ctx.require("judged_batches_after_store_replaced", 3)
    ctx.require("line_yields", 100)
    ctx.require("nsga2_run_pairs", 4)
    if ctx.extra.get("max_overlap_in_objective", 0) < 2:
        ctx.not_reached("no schedule ever had two designs inside the objective at the same time")
