"""C14 — worst-case and gradient evaluators compute what they promise, stably across batches."""
import collections
import math

from .. import gen, hooks, insitu, oracles, rng as vrng

PID = "C14"
LEVEL = "exploration"
RULE = ("histories of 1..6 batches of 1..8 fresh designs (n=1..4, 1..3 objectives, random tolerances; replicated designs within a "
        "batch; scripted transient failures) through Algorithm.evaluate "
        "with the worst-case and the gradient evaluator, plus NSGA-II / eps-MOEA / sweep runs with those evaluators; after EVERY "
        "batch all designs evaluated so far are re-checked: neighbour set, 1+2n (resp. 1+n) objective calls, sensitivity sum / "
        "forward difference, cost-vector length. non-trivial = history with >=2 batches (earlier designs could be re-processed) "
        "or a run with >=2 generations; distinct by (evaluator, history seed)")
ASSUMPTIONS = ["batches consist of not-yet-evaluated designs, one batch per generation, as in the population algorithms"]
SHARDS = {"quick": 1, "thorough": 16}
WATCHDOG = {"quick": 900, "thorough": 3000}


def cases(ctx):
    for i in range(ctx.pick(450, 90000)):
        yield "worst_history", {"seed": ctx.subseed("w", i)}
    for i in range(ctx.pick(450, 90000)):
        yield "gradient_history", {"seed": ctx.subseed("g", i)}
    for i in range(ctx.pick(48, 9000)):
        yield "run", {"seed": ctx.subseed("r", i), "algo": ["nsga2", "epsmoea", "sweep"][i % 3], "evaluator": ["worst", "gradient"][(i // 3) % 2]}


def make_problem(r, n, m, script=None):
    bxs = gen.boxes(r, n, r.choice(["unit", "mixed", "neg", "asym"]))
    tols = [r.choice([0.1, 0.01, 1e-3, 0.5]) * (ub - lb) for lb, ub in bxs]
    prm = [{"name": "x%d" % i, "bounds": list(b), "tol": t} for i, (b, t) in enumerate(zip(bxs, tols))]
    ws = [[r.uniform(-2, 2) for _ in range(n)] for _ in range(m)]
    kind = r.choice(["quad", "lin", "abs"])

    def fn(x):
        out = []
        for j in range(m):
            if kind == "quad":
                out.append(sum(w * v * v for w, v in zip(ws[j], x)) + j)
            elif kind == "lin":
                out.append(sum(w * v for w, v in zip(ws[j], x)) + 0.5 * j)
            else:
                out.append(sum(abs(w * v) for w, v in zip(ws[j], x)))
        return out
    crit = [r.choice(["minimize", "maximize"]) for _ in range(m)]
    p = hooks.make_problem(n=n, m=m, params=prm, fn=fn, criteria=crit, script=script)
    if r.random() < 0.3:
        # goal names are the user's: also the names the evaluators use for what they add ('sensitivity', 'gradient'), names that
        # repeat, and names that are prefixes of each other
        pool_ = ["sensitivity", "gradient", "sensitivity ", "f", "f_1", "x0", "cost", "Sensitivity"]
        for c_ in p.costs:
            c_["name"] = r.choice(pool_)
        p.costs[-1]["name"] = r.choice(["sensitivity", "gradient", "sensitivity", "cost"])
    return p, bxs, tols, fn


def key_of(vec):
    return tuple(float(v) for v in vec)


def judge_worst(ctx, p, design, tols, m, fn, tag, batch_no):
    """design: dict(ind, vector) recorded when first evaluated"""
    ind = design["ind"]
    x = design["vector"]
    n = len(x)
    ctx.count("worst_case_design_checks")
    wit = lambda extra=None: {"x": x, "tol": tols, "costs": list(ind.costs), "costs_signed": list(ind.costs_signed),
                              "children": [list(c.vector) for c in ind.children][:8], "checked_after_batch": batch_no,
                              "evaluated_in_batch": design["batch"], "extra": extra}
    exp_children = collections.Counter()
    for i in range(n):
        for s in (-1, 1):
            v = list(x)
            v[i] = x[i] + s * tols[i]
            exp_children[key_of(v)] += 1
    got_children = collections.Counter(key_of(c.vector) for c in ind.children)
    late = "/after_later_batch" if batch_no > design["batch"] else ""
    if list(map(float, ind.vector)) != list(x):
        ctx.violation("worst/vector_changed" + late, "design vector changed", wit())
        return False
    if got_children != exp_children:
        ctx.violation("worst/children" + late, "children are not the 2n designs x +- tol_i e_i", wit({"expected": list(exp_children)[:8]}))
        return False
    if len(ind.costs) != m + 1:
        ctx.violation("worst/costs_length" + late, "cost vector has %d entries, expected %d user objectives + 1" % (len(ind.costs), m), wit())
        return False
    if len(ind.costs_signed) != m + 2:
        ctx.violation("worst/costs_signed_length" + late, "signed cost vector has %d entries, expected %d" % (len(ind.costs_signed), m + 2), wit())
        return False
    f0 = fn(x)[0]
    sens = sum(abs(f0 - fn(list(c))[0]) for c in exp_children.elements())
    if not oracles.close(float(ind.costs[-1]), sens, 1e-9, 1e-12) or not oracles.close(float(ind.costs_signed[-2]), sens, 1e-9, 1e-12):
        ctx.violation("worst/sensitivity_value" + late, "extra objective %r (signed %r), sum |f(x)-f(neighbour)| is %r"
                      % (ind.costs[-1], ind.costs_signed[-2], sens), wit())
        return False
    if list(map(float, ind.costs[:m])) != [float(v) for v in fn(x)]:
        ctx.violation("worst/user_costs" + late, "user objectives differ from f(x)", wit())
        return False
    # objective calls: once for x, once per neighbour (call log is global: count by vector)
    cnt = collections.Counter(key_of(c.vector) for c in p.calls)
    mult = design.get("mult", 1)       # how many designs of the history share this vector (replicated points)
    if cnt[key_of(x)] != mult * (1 + exp_children.get(key_of(x), 0)):
        ctx.violation("worst/calls_design" + late, "design evaluated %d times" % cnt[key_of(x)], wit())
        return False
    for cv, k in exp_children.items():
        if cv == key_of(x):
            continue
        if cnt[cv] != mult * k:
            ctx.violation("worst/calls_neighbour" + late, "a neighbour design was evaluated %d times, expected %d (%d design(s) with this vector in the batch)" % (cnt[cv], mult * k, mult), wit({"neighbour": cv}))
            return False
    return True


def judge_gradient(ctx, p, design, m, fn, tag, batch_no):
    ind = design["ind"]
    x = design["vector"]
    n = len(x)
    d = 1e-4
    ctx.count("gradient_design_checks")
    late = "/after_later_batch" if batch_no > design["batch"] else ""
    g = ind.features.get("gradient")
    wit = lambda extra=None: {"x": x, "gradient": None if g is None else [float(v) for v in g], "costs": list(ind.costs),
                              "checked_after_batch": batch_no, "evaluated_in_batch": design["batch"], "extra": extra}
    if g is None or len(g) != n:
        ctx.violation("gradient/missing" + late, "no gradient of length n stored", wit())
        return False
    f0 = fn(x)[0]
    cnt = collections.Counter(key_of(c.vector) for c in p.calls)
    for i in range(n):
        v = list(x)
        v[i] = x[i] + d
        exp = (fn(v)[0] - f0) / d
        if not oracles.close(float(g[i]), exp, 1e-9, 1e-9):
            ctx.violation("gradient/value" + late, "gradient[%d]=%r, forward difference (step 1e-4) of the first objective is %r" % (i, float(g[i]), exp), wit())
            return False
        if cnt[key_of(v)] != design.get("mult", 1):
            ctx.violation("gradient/calls_neighbour" + late, "x + 1e-4 e_%d evaluated %d times, expected once per design" % (i, cnt[key_of(v)]), wit())
            return False
    if cnt[key_of(x)] != design.get("mult", 1):
        ctx.violation("gradient/calls_design" + late, "design evaluated %d times" % cnt[key_of(x)], wit())
        return False
    if len(ind.costs) != m or list(map(float, ind.costs)) != [float(v) for v in fn(x)]:
        ctx.violation("gradient/user_costs" + late, "stored costs differ from f(x)", wit())
        return False
    return True


def run_case(ctx, name, params):
    from artap.algorithm import Algorithm, EvaluatorType
    from artap.individual import Individual
    r = ctx.rng(name, params["seed"])

    class Alg(Algorithm):
        def run(self):
            pass
    if name in ("worst_history", "gradient_history"):
        worst = name == "worst_history"
        n = r.randint(1, 4)
        m = r.randint(1, 3)
        # transient failures of the evaluation of a batch design (never of a neighbour): Job.evaluate then replaces the vector, and
        # everything derived for the design must belong to the vector that is finally stored
        parents = set()
        failed_once = {}
        inject = r.random() < 0.4
        fr = ctx.rng("fail", params["seed"])

        def script(call_no, vec, individual):
            if inject and individual.id in parents and failed_once.get(individual.id, 0) < 2 and fr.random() < 0.3:
                failed_once[individual.id] = failed_once.get(individual.id, 0) + 1
                return fr.choice([RuntimeError, TimeoutError])("injected transient failure")
            return None
        p, bxs, tols, fn = make_problem(r, n, m, script=script)
        alg = Alg(p, evaluator_type=EvaluatorType.WORST_CASE if worst else EvaluatorType.GRADIENT)
        vrng.install(vrng.SeededRandom(params["seed"]))
        nb = r.randint(1, 6)
        designs = []
        total_expected = 0
        # "forgetful" histories: designs of earlier batches are dropped by their owner (as a truncating population algorithm
        # does), their memory is reused, and a later batch contains a NEW design that has the dead design's vector and sits at
        # the dead design's address: it is a design like any other
        forgetful = (not inject) and r.random() < 0.4
        freed = {}
        ghosts = []
        for b in range(nb):
            size = r.randint(1, 8)
            batch = []
            if freed:
                import gc
                gc.collect()
                hold = []
                for _k in range(4000):
                    x_ = Individual([0.0] * n)
                    if id(x_) in freed:
                        x_.vector = list(freed.pop(id(x_)))
                        batch.append(x_)
                        parents.add(x_.id)
                        designs.append({"ind": x_, "vector": [float(v) for v in x_.vector], "batch": b})
                        ctx.count("designs_at_a_recycled_address_with_the_dead_designs_vector")
                        if len(batch) >= 3 or not freed:
                            break
                    else:
                        hold.append(x_)
                del hold
                freed.clear()
                size = max(size, len(batch))
            for _ in range(size - len(batch)):
                if batch and not inject and r.random() < 0.12:
                    ind = Individual(list(r.choice(batch).vector))       # a replicated point: another design at the same vector
                    ctx.count("replicated_designs_in_a_batch")
                else:
                    ind = Individual([lb + r.random() * (ub - lb) for lb, ub in bxs])
                batch.append(ind)
                parents.add(ind.id)
                designs.append({"ind": ind, "vector": [float(v) for v in ind.vector], "batch": b})
            try:
                alg.evaluate(batch)
            except Exception as e:
                ctx.violation(("worst" if worst else "gradient") + "/exception", "evaluate raised %r in batch %d" % (e, b), {"n": n, "m": m})
                return
            for dsg in designs[-size:]:
                dsg["vector"] = [float(v) for v in dsg["ind"].vector]       # the vector that was finally stored (after retries)
            for dsg in designs:
                dsg["mult"] = sum(1 for o in designs + ghosts if o["vector"] == dsg["vector"])
            total_expected += size * ((1 + 2 * n) if worst else (1 + n)) + sum(failed_once.get(i.id, 0) for i in batch)
            ctx.count("injected_parent_failures", sum(failed_once.get(i.id, 0) for i in batch))
            ctx.count("batches")
            for dsg in designs:
                ok = judge_worst(ctx, p, dsg, tols, m, fn, "history", b) if worst else judge_gradient(ctx, p, dsg, m, fn, "history", b)
                if not ok:
                    return
            if len(p.calls) != total_expected:
                ctx.violation(("worst" if worst else "gradient") + "/total_calls/after_batch_%s" % ("first" if b == 0 else "later"),
                              "%d objective calls after %d batches, expected %d" % (len(p.calls), b + 1, total_expected),
                              {"n": n, "m": m, "batches": b + 1})
                return
            if forgetful and b < nb - 1:
                drop = set(r.sample(range(len(designs)), r.randint(1, len(designs))))
                for k_ in drop:
                    ghosts.append({"vector": designs[k_]["vector"]})
                    freed[id(designs[k_]["ind"])] = designs[k_]["vector"]
                designs = [d_ for k_, d_ in enumerate(designs) if k_ not in drop]
                dsg = ind = d_ = None
                del batch
        if nb >= 2:
            ctx.nontrivial((name, params["seed"]))
        ctx.count("cases")
        if not designs:
            return
        ctx.sample({"evaluator": "worst_case" if worst else "gradient", "n": n, "m": m, "batches": nb, "designs": len(designs),
                    "objective_calls": len(p.calls), "first_design": {"x": designs[0]["vector"], "costs": list(designs[0]["ind"].costs)}}, name)
    else:
        algo, ev = params["algo"], params["evaluator"]
        n = r.randint(1, 3)
        m = r.randint(1, 2) if algo != "epsmoea" else 2
        p, bxs, tols, fn = make_problem(r, n, m)
        et = EvaluatorType.WORST_CASE if ev == "worst" else EvaluatorType.GRADIENT
        N, G = r.randint(2, 8), r.randint(2, 5)
        vrng.install(vrng.SeededRandom(params["seed"]))
        vrng.install_numpy(params["seed"] % 2 ** 31)
        try:
            if algo == "sweep":
                from artap.algorithm_sweep import SweepAlgorithm
                from artap.operators import RandomGenerator, GradientEvaluator, WorstCaseEvaluator
                g = RandomGenerator(p.parameters)
                g.init(N)
                a = SweepAlgorithm(p, generator=g)
                a.evaluator = (WorstCaseEvaluator if ev == "worst" else GradientEvaluator)(a)
                a.run()
            else:
                a = insitu.make(algo, p, N, G, evaluator_type=et)
                a.run()
        except Exception as e:
            import traceback
            ctx.violation("run/%s/%s/exception" % (algo, ev), "%s run with the %s evaluator raised %r" % (algo, ev, e),
                          {"N": N, "G": G, "n": n, "m": m, "tb": traceback.format_exc()[-700:]})
            return
        finally:
            vrng.uninstall_numpy()
        ctx.count("runs")
        seen = set()
        for ind in p.individuals:
            if id(ind.costs) in seen:       # NSGA-II parent copies share the cost list of the original
                continue
            seen.add(id(ind.costs))
            ctx.count("run_design_checks")
            if ev == "worst":
                if len(ind.costs) != m + 1 or len(ind.costs_signed) != m + 2:
                    ctx.violation("worst/costs_length/run", "after a %s run a recorded design has %d costs / %d signed costs, expected %d / %d"
                                  % (algo, len(ind.costs), len(ind.costs_signed), m + 1, m + 2),
                                  {"algo": algo, "N": N, "G": G, "generation": ind.population_id, "costs": list(ind.costs)})
                    return
                if ind.children:
                    f0 = fn(ind.vector)[0]
                    sens = sum(abs(f0 - fn(c.vector)[0]) for c in ind.children)
                    if len(ind.children) != 2 * n or not oracles.close(float(ind.costs[-1]), sens, 1e-9, 1e-12):
                        ctx.violation("worst/sensitivity_value/run", "sensitivity objective %r, recomputed %r (children %d)"
                                      % (ind.costs[-1], sens, len(ind.children)), {"algo": algo, "x": ind.vector})
                        return
            else:
                g_ = ind.features.get("gradient")
                if g_ is not None:
                    f0 = fn(ind.vector)[0]
                    for i in range(n):
                        v = list(ind.vector)
                        v[i] = v[i] + 1e-4
                        exp = (fn(v)[0] - f0) / 1e-4
                        if not oracles.close(float(g_[i]), exp, 1e-9, 1e-9):
                            ctx.violation("gradient/value/run", "gradient[%d]=%r, forward difference %r" % (i, float(g_[i]), exp),
                                          {"algo": algo, "x": ind.vector})
                            return
        if algo != "sweep" or True:
            ctx.nontrivial(("run", algo, ev, params["seed"]))
        ctx.count("cases")
        ctx.sample({"algo": algo, "evaluator": ev, "N": N, "G": G, "recorded": len(p.individuals), "objective_calls": len(p.calls)}, "run_" + ev, 2)


def requirements(ctx):
    ctx.require("worst_case_design_checks", 500)
    ctx.require("gradient_design_checks", 500)
    ctx.require("batches", 200)
    ctx.require("run_design_checks", 100)
