"""Crash drivers for C11: writers (run in a forked child or under strace), crash-point
injection at Python-level SQL/objective events, and the post-mortem verifier."""
import json
import math
import os
import sys
import threading

import numpy as np

WRITERS = ["sweep", "nsga2", "nsga2_threads", "epsmoea", "omopso", "smpso", "bulk_sync_all", "sweep_contended", "sweep_resumed"]
N_PARAMS = 2


def objective(x):
    return [sum((v - 0.25) ** 2 for v in x) + 0.5, sum(abs(v) for v in x) + 1.0]


def expected_signed(costs):
    return [float(np.round(c, 7)) for c in costs]


def run_writer(kind, path, retlog, seed, on_event=None, marker=None):
    """Creates the problem and the store, then runs the writer.  `on_event(kind)` is called at every
    crash point (SQL events via the sqlite3.connect proxy, objective calls); it may never return."""
    from . import hooks, insitu, rng as vrng, sqlproxy
    from artap.datastore import SqliteDataStore
    from artap.individual import Individual
    vrng.install(vrng.SeededRandom(seed))
    vrng.install_numpy(seed % 2 ** 31)
    Individual.counter = 1000      # ids independent of whatever the parent process created before forking
    armed = [False]
    fd = os.open(retlog, os.O_WRONLY | os.O_CREAT | os.O_APPEND, 0o644)

    def ev(k):
        if armed[0] and on_event is not None:
            on_event(k)
    p = hooks.make_problem(n=N_PARAMS, m=2, bounds=[[-1.0, 1.0]] * N_PARAMS, criteria=["minimize", "minimize"],
                           fn=objective, name="crash-writer",
                           entry_gate=lambda c: ev("objective:enter"), exit_gate=lambda c: ev("objective:exit"))
    proxy = sqlproxy.Proxy(on_event=lambda n, k, sql: ev("sql:" + k))
    proxy.install()
    store = SqliteDataStore(p, database_name=path)          # default thread-safe mode
    p.data_store = store
    orig = SqliteDataStore.sync_individual
    tl = threading.local()

    def sync_individual(self, individual, *a, **kw):
        if getattr(tl, "depth", 0):
            return orig(self, individual, *a, **kw)
        tl.depth = 1
        try:
            res = orig(self, individual, *a, **kw)
        finally:
            tl.depth = 0
        # the synchronisation has returned: durable log line, written with one write() on an O_APPEND fd
        line = "RET %s\n" % json.dumps({"id": individual.id, "vector": [float(v) for v in individual.vector],
                                        "costs": [float(c) for c in individual.costs], "state": str(individual.state)})
        os.write(fd, line.encode())
        ev("sync:returned")
        return res
    SqliteDataStore.sync_individual = sync_individual
    if marker is not None:
        marker()
    armed[0] = True                                          # crash points start counting here
    try:
        if kind == "sweep":
            from artap.algorithm_sweep import SweepAlgorithm
            from artap.operators import CustomGenerator
            g = CustomGenerator(p.parameters)
            g.init([[-0.9 + 0.3 * i, 0.8 - 0.25 * i] for i in range(6)])
            a = SweepAlgorithm(p, generator=g)
            a.run()
        elif kind == "sweep_contended":
            # the sweep again, but another connection holds the write lock for a while in the middle (a viewer, a second session),
            # the busy time-out is short and the problem's (unrelated) time_out option is tiny: a synchronisation that returns has
            # written its row, however long it had to wait
            from artap.algorithm_sweep import SweepAlgorithm
            from artap.operators import CustomGenerator
            import time as _t
            proxy.timeout = 0.03
            try:
                p.options["time_out"] = 0.001
            except Exception:
                pass
            calls_ = [0]
            started_ = [False]

            def holder():
                cn = sqlproxy.REAL_CONNECT(path, isolation_level=None, timeout=5.0)
                try:
                    cn.execute("BEGIN EXCLUSIVE")
                    _t.sleep(0.35)
                    cn.execute("COMMIT")
                finally:
                    cn.close()
            real_eval = p.evaluate

            def evaluate_(individual):
                calls_[0] += 1
                if calls_[0] == 3 and not started_[0]:
                    started_[0] = True
                    th_ = threading.Thread(target=holder, daemon=True)
                    th_.start()
                    _t.sleep(0.05)          # let the holder take the lock before this design is synchronised
                return real_eval(individual)
            p.evaluate = evaluate_
            g = CustomGenerator(p.parameters)
            g.init([[-0.9 + 0.3 * i, 0.8 - 0.25 * i] for i in range(6)])
            a = SweepAlgorithm(p, generator=g)
            a.run()
        elif kind == "sweep_resumed":
            # a first session records four designs and ends; a NEW process (design ids start again at 0 there, as in any fresh
            # interpreter) opens the same file in the default write mode and goes on: what the first session had synchronised
            # stays in the file, whatever the second session does and wherever it dies.  Crash points count in the second session.
            from artap.algorithm_sweep import SweepAlgorithm
            from artap.operators import CustomGenerator
            armed[0] = False
            Individual.counter = 0
            g = CustomGenerator(p.parameters)
            g.init([[-0.8 + 0.4 * i, 0.7 - 0.3 * i] for i in range(4)])
            SweepAlgorithm(p, generator=g).run()
            os.write(fd, ("SESSION-END %s\n" % json.dumps([i.id for i in p.individuals])).encode())
            del g, store
            Individual.counter = 0
            p2 = hooks.make_problem(n=N_PARAMS, m=2, bounds=[[-1.0, 1.0]] * N_PARAMS, criteria=["minimize", "minimize"],
                                    fn=objective, name="crash-writer",
                                    entry_gate=lambda c: ev("objective:enter"), exit_gate=lambda c: ev("objective:exit"))
            p2.data_store = SqliteDataStore(p2, database_name=path)
            armed[0] = True
            g2 = CustomGenerator(p2.parameters)
            g2.init([[-0.9 + 0.3 * i, 0.8 - 0.25 * i] for i in range(5)])
            SweepAlgorithm(p2, generator=g2).run()
            p = p2
        elif kind == "nsga2":
            a = insitu.make("nsga2", p, 4, 3)
            a.run()
        elif kind == "nsga2_threads":
            a = insitu.make("nsga2", p, 6, 3, procs=3)
            a.run()
        elif kind == "epsmoea":
            a = insitu.make("epsmoea", p, 4, 2)
            a.run()
        elif kind in ("omopso", "smpso"):
            a = insitu.make(kind, p, 4, 2)
            a.run()
        elif kind == "bulk_sync_all":
            # one big transaction: 450 recorded designs with a few KB of custom data each (more than SQLite's page cache holds),
            # written by a single sync_all -- uncommitted pages spill into the file before the commit
            rr_ = __import__("random").Random(seed)
            for k_ in range(450):
                vec = [rr_.uniform(-1, 1), rr_.uniform(-1, 1)]
                ind = Individual(vec)
                ind.costs = objective(vec)
                ind.costs_signed = expected_signed(ind.costs) + [True]
                ind.state = Individual.State.EVALUATED
                ind.custom = {"field": [rr_.random() for _ in range(350)]}
                p.individuals.append(ind)
            store.sync_all()
        else:
            raise ValueError(kind)
    finally:
        SqliteDataStore.sync_individual = orig
        proxy.uninstall()
        os.close(fd)
    return p


def read_retlog(retlog):
    out = []
    try:
        with open(retlog, "rb") as f:
            data = f.read().decode(errors="replace")
    except FileNotFoundError:
        return out
    for line in data.split("\n"):
        if line.startswith("RET "):
            try:
                out.append(json.loads(line[4:]))
            except ValueError:
                pass            # the process died inside the write of this line: that sync's return was not logged
    return out


def earlier_session_ids(retlog):
    """ids of designs recorded by a session that had ended before the (crashing) session opened the file"""
    ids = set()
    try:
        with open(retlog, "rb") as f:
            for line in f.read().decode(errors="replace").split("\n"):
                if line.startswith("SESSION-END "):
                    try:
                        ids.update(json.loads(line[12:]))
                    except ValueError:
                        pass
    except FileNotFoundError:
        pass
    return ids


def verify(ctx, path, retlog, wit):
    """post-mortem on the database file; returns True if everything held"""
    import sqlite3
    from . import hooks
    from artap.problem import ProblemViewDataStore
    ctx.count("post_mortems")
    rets = read_retlog(retlog)
    if not os.path.exists(path):
        ctx.violation("crash/database_missing", "database file does not exist after the crash", wit())
        return False
    try:
        view = hooks.tame(ProblemViewDataStore(database_name=path))
    except Exception as e:
        ctx.violation("crash/view_cannot_open/%s" % type(e).__name__, "read-mode view cannot open the store after the crash: %r" % e, wit())
        return False
    if view.name != "crash-writer" or [q.get("name") for q in view.parameters] != ["x%d" % i for i in range(N_PARAMS)] \
            or [c.get("name") for c in view.costs] != ["f0", "f1"]:
        ctx.violation("crash/problem_definition", "problem name / parameter / cost definitions damaged after the crash",
                      wit({"name": view.name, "parameters": view.parameters, "costs": view.costs}))
        return False
    rows = {}
    for ind in view.individuals:
        rows[ind.id] = ind
    ctx.count("rows_inspected", len(rows))
    # every synchronisation that had returned is present, with costs matching the vector
    for rt in rets:
        ctx.count("returned_syncs_checked")
        row = rows.get(rt["id"])
        if row is None:
            ctx.violation("crash/returned_sync_missing", "an individual whose synchronisation had returned before the crash has no row",
                          wit({"logged": rt, "rows": sorted(rows)[:20]}))
            return False
        if [float(v) for v in row.vector] != rt["vector"] or [float(c) for c in row.costs] != rt["costs"]:
            ctx.violation("crash/returned_sync_differs", "row of a returned synchronisation does not hold the logged vector/costs",
                          wit({"logged": rt, "row": {"vector": row.vector, "costs": row.costs}}))
            return False
    # no row holds a partially written individual
    earlier = earlier_session_ids(retlog)
    if earlier:
        ctx.count("post_mortems_of_a_resumed_session")
    for i, row in rows.items():
        st = row.state
        vec = [float(v) for v in row.vector]
        costs = [float(c) for c in row.costs]
        cs = list(row.costs_signed)
        ok = True
        why = None
        if len(vec) != N_PARAMS:
            ok, why = False, "vector length"
        elif st not in ("evaluated", "empty") and not (st is None and i in earlier):
            ok, why = False, "state %r persisted" % st
        elif costs or cs:
            if costs != [float(v) for v in objective(vec)]:
                ok, why = False, "costs are not f(vector)"
            elif len(cs) != len(costs) + 1 or [float(v) for v in cs[:-1]] != expected_signed(costs):
                ok, why = False, "signed costs inconsistent with costs"
        elif st == "evaluated":
            ok, why = False, "evaluated without costs"
        if st is None and i in earlier:
            # a design loaded from the file by a later session carries its state as text; the library writes such a state back as
            # null (sync_all at the end of the later session).  Not a torn write, and the state is not among the fields C10 names:
            # counted, not judged (vector, costs and signed costs of such a row are judged like any other)
            ctx.count("rows_of_an_earlier_session_rewritten_without_state")
        if not ok:
            ctx.violation("crash/partial_row", "a row holds a partially written individual (%s)" % why,
                          wit({"id": i, "state": st, "vector": vec, "costs": costs, "costs_signed": cs}))
            return False
    try:
        conn = sqlite3.connect(path)
        res = conn.execute("PRAGMA integrity_check").fetchall()
        conn.close()
    except Exception as e:
        ctx.violation("crash/integrity_check_failed", "PRAGMA integrity_check raised %r" % e, wit())
        return False
    if res != [("ok",)]:
        ctx.violation("crash/integrity_check", "PRAGMA integrity_check reports %r" % (res[:3],), wit())
        return False
    return True


# ---------------------------------------------------------------- stand-alone writer (for strace / SIGKILL)
def _main():
    kind, path, retlog, seed = sys.argv[1], sys.argv[2], sys.argv[3], int(sys.argv[4])
    from . import core
    core.silence()
    core.scratch_dir()
    run_writer(kind, path, retlog, seed, marker=lambda: os.kill(os.getpid(), 0))
    os.kill(os.getpid(), 0)
    sys.stdout.flush()
    core.cleanup_scratch()
    os._exit(0)


if __name__ == "__main__":
    _main()
