"""Controlled thread scheduler (gates + seeded grant policies) and a sys.monitoring
LINE-event yield injector restricted to artap code.

Gates only add delay: a thread calling gate(label) logs an event under the scheduler lock
(the trace is a total order) and parks until the controller grants it.  The controller
waits until every known worker is parked or a short quiescence expires, then releases one
parked thread chosen by a seeded policy.  A gate flagged `bounded` (used inside open SQL
transactions) releases itself after max_hold seconds."""
import random
import sys
import threading
import time


class Scheduler:
    POLICIES = ("uniform", "round_robin", "starve_one", "pct", "lifo")

    def __init__(self, seed, policy="uniform", expected=2, quiescence=0.004, max_hold=0.25, enabled_labels=None):
        self.r = random.Random(seed)
        self.policy = policy
        self.expected = expected
        self.quiescence = quiescence
        self.max_hold = max_hold
        self.enabled = enabled_labels
        self.lock = threading.Condition()
        self.parked = {}            # tid -> (event, label, seq)
        self.trace = []             # (seq, tid_index, label, kind)
        self.tids = {}
        self.seq = 0
        self.stop = False
        self.grants = 0
        self.self_releases = 0
        self.max_parked = 0
        self.in_objective = 0
        self.max_overlap = 0
        self.rr = 0
        self.victim = None
        self.prio = {}
        self.change_points = set()
        self.thread = threading.Thread(target=self._run, daemon=True)
        self.thread.start()

    # ---- worker side
    def _tid(self):
        t = threading.get_ident()
        if t not in self.tids:
            self.tids[t] = len(self.tids)
        return self.tids[t]

    def note(self, label):
        with self.lock:
            self.seq += 1
            self.trace.append((self.seq, self._tid(), label, "note"))
            if label == "obj_enter":
                self.in_objective += 1
                self.max_overlap = max(self.max_overlap, self.in_objective)
            elif label == "obj_exit":
                self.in_objective -= 1

    def gate(self, label, bounded=False):
        if self.stop or (self.enabled is not None and label not in self.enabled):
            return
        ev = threading.Event()
        with self.lock:
            self.seq += 1
            me = self._tid()
            self.trace.append((self.seq, me, label, "park"))
            self.parked[me] = (ev, label, self.seq)
            self.max_parked = max(self.max_parked, len(self.parked))
            self.lock.notify_all()
        if bounded:
            if not ev.wait(self.max_hold):
                with self.lock:
                    if me in self.parked and self.parked[me][0] is ev:
                        del self.parked[me]
                        self.self_releases += 1
                        self.seq += 1
                        self.trace.append((self.seq, me, label, "self_release"))
        else:
            if not ev.wait(30.0):   # safety net: never dead-lock the run; counted
                with self.lock:
                    if me in self.parked and self.parked[me][0] is ev:
                        del self.parked[me]
                        self.self_releases += 1

    # ---- controller
    def _choose(self, cands):
        cands = sorted(cands)
        p = self.policy
        if p == "round_robin":
            self.rr += 1
            return cands[self.rr % len(cands)]
        if p == "lifo":
            return max(cands, key=lambda t: self.parked[t][2])
        if p == "starve_one":
            if self.victim is None:
                self.victim = self.r.choice(cands)
            others = [c for c in cands if c != self.victim]
            if others and self.r.random() < 0.95:
                return self.r.choice(others)
            return self.r.choice(cands)
        if p == "pct":
            for c in cands:
                if c not in self.prio:
                    self.prio[c] = self.r.random()
            if self.grants in self.change_points:
                hi = max(cands, key=lambda t: self.prio[t])
                self.prio[hi] = -self.r.random()
            return max(cands, key=lambda t: self.prio[t])
        return self.r.choice(cands)

    def _run(self):
        if self.policy == "pct":
            self.change_points = {self.r.randint(1, 60) for _ in range(3)}
        while True:
            with self.lock:
                while not self.parked and not self.stop:
                    self.lock.wait(0.05)
                if self.stop and not self.parked:
                    return
                # wait for the other workers to arrive, or for quiescence
                deadline = time.monotonic() + self.quiescence
                while len(self.parked) < self.expected and not self.stop:
                    left = deadline - time.monotonic()
                    if left <= 0:
                        break
                    n0 = len(self.parked)
                    self.lock.wait(left)
                    if len(self.parked) > n0:
                        deadline = time.monotonic() + self.quiescence
                if not self.parked:
                    continue
                t = self._choose(list(self.parked))
                ev, label, _ = self.parked.pop(t)
                self.grants += 1
                self.seq += 1
                self.trace.append((self.seq, t, label, "grant"))
                ev.set()

    def shutdown(self):
        with self.lock:
            self.stop = True
            for t, (ev, label, _) in list(self.parked.items()):
                ev.set()
            self.parked.clear()
            self.lock.notify_all()
        self.thread.join(2.0)

    def signature(self):
        """order of grants as (thread index, label) pairs: identifies the interleaving explored"""
        return tuple((t, l) for (_, t, l, k) in self.trace if k in ("grant", "self_release"))


# ---------------------------------------------------------------- line-level yield injection
class YieldInjector:
    """sys.monitoring LINE events on the code objects of selected artap modules; with seeded
    probability the callback sleeps(0), handing the GIL to another thread at a statement
    boundary inside artap code."""

    def __init__(self, seed, prob=0.3, modules=("artap.job", "artap.datastore", "artap.individual", "artap.surrogate",
                                                   "artap.operators", "artap.problem")):
        self.r = random.Random(seed)
        self.prob = prob
        self.modules = modules
        self.tool = None
        self.yields = 0
        self.events = 0
        self.codes = []
        self.rlock = threading.Lock()

    def _codes(self):
        import types
        out = []
        seen = set()

        def walk(code):
            if id(code) in seen:
                return
            seen.add(id(code))
            out.append(code)
            for c in code.co_consts:
                if isinstance(c, types.CodeType):
                    walk(c)
        for mname in self.modules:
            mod = sys.modules.get(mname)
            if mod is None:
                continue
            for v in vars(mod).values():
                if isinstance(v, types.FunctionType) and v.__module__ == mname:
                    walk(v.__code__)
                elif isinstance(v, type) and v.__module__ == mname:
                    for a in vars(v).values():
                        f = a.__func__ if isinstance(a, (staticmethod, classmethod)) else a
                        if isinstance(f, types.FunctionType):
                            walk(f.__code__)
        return out

    def start(self):
        mon = sys.monitoring
        for tid in (3, 4, 2, 1):
            try:
                mon.use_tool_id(tid, "artap-verif-yield")
                self.tool = tid
                break
            except ValueError:
                continue
        if self.tool is None:
            raise RuntimeError("no free sys.monitoring tool id")

        def on_line(code, line):
            with self.rlock:
                self.events += 1
                y = self.r.random() < self.prob
                if y:
                    self.yields += 1
            if y:
                time.sleep(0)
        mon.register_callback(self.tool, mon.events.LINE, on_line)
        self.codes = self._codes()
        for c in self.codes:
            mon.set_local_events(self.tool, c, mon.events.LINE)

    def stop(self):
        mon = sys.monitoring
        if self.tool is None:
            return
        for c in self.codes:
            try:
                mon.set_local_events(self.tool, c, 0)
            except Exception:
                pass
        mon.register_callback(self.tool, mon.events.LINE, None)
        mon.free_tool_id(self.tool)
        self.tool = None
