"""Independent reference definitions, written from the property statements.
Nothing here calls into artap."""
import itertools
import math
from fractions import Fraction


# ---------------------------------------------------------------- dominance
def marker(v):
    """infeasibility marker magnitude: 0/False = feasible (best), larger = worse."""
    return abs(float(v))


def odom(p, q):
    """Constrained Pareto dominance on signed-cost vectors (last entry = marker).
    1: p dominates, 2: q dominates, 0: neither."""
    mp, mq = marker(p[-1]), marker(q[-1])
    if mp < mq:
        return 1
    if mq < mp:
        return 2
    better = worse = False
    for a, b in zip(p[:-1], q[:-1]):
        if a < b:
            better = True
        elif b < a:
            worse = True
    if better and not worse:
        return 1
    if worse and not better:
        return 2
    return 0


def dominates(p, q):
    return odom(p, q) == 1


def ranks(costs):
    """rank(x) = 1 if nothing dominates x else 1 + max rank of its dominators."""
    n = len(costs)
    doms = [[j for j in range(n) if j != i and odom(costs[j], costs[i]) == 1] for i in range(n)]
    memo = {}

    def rank(i):
        # iterative to avoid recursion limits on long chains
        stack = [i]
        while stack:
            k = stack[-1]
            if k in memo:
                stack.pop()
                continue
            pending = [d for d in doms[k] if d not in memo]
            if pending:
                stack.extend(pending)
                continue
            memo[k] = 1 + max((memo[d] for d in doms[k]), default=0)
            stack.pop()
        return memo[i]

    return [rank(i) for i in range(n)]


def nd_set(offered):
    """Set of cost tuples not dominated by any other offered vector."""
    uniq = list(dict.fromkeys(tuple(c) for c in offered))
    out = set()
    for c in uniq:
        if not any(odom(d, c) == 1 for d in uniq if d != c):
            out.add(c)
    return out


# ---------------------------------------------------------------- crowding
def has_ties(costs):
    m = len(costs[0]) - 1
    for d in range(m):
        col = [c[d] for c in costs]
        if len(set(col)) != len(col):
            return True
    return False


def crowding(costs):
    """Exact crowding distances for a front without tied objective values.
    costs: list of signed-cost vectors (marker last). Returns list of floats."""
    n = len(costs)
    if n <= 2:
        return [math.inf] * n
    m = len(costs[0]) - 1
    out = [0.0] * n
    for d in range(m):
        order = sorted(range(n), key=lambda i: costs[i][d])
        lo, hi = costs[order[0]][d], costs[order[-1]][d]
        out[order[0]] = math.inf
        out[order[-1]] = math.inf
        rng = hi - lo
        if rng > 0:
            for k in range(1, n - 1):
                out[order[k]] += (costs[order[k + 1]][d] - costs[order[k - 1]][d]) / rng
    return out


# ---------------------------------------------------------------- quasi-random
def primes(k):
    """first k primes by trial division"""
    out = []
    c = 2
    while len(out) < k:
        if all(c % p for p in out if p * p <= c):
            out.append(c)
        c += 1
    return out


def radical_inverse(i, base):
    """exact van der Corput value of integer i in the given base"""
    f = Fraction(0)
    denom = 1
    while i > 0:
        i, r = divmod(i, base)
        denom *= base
        f += Fraction(r, denom)
    return f


# ---------------------------------------------------------------- misc
def ulp(x):
    return math.ulp(abs(float(x))) if x == x and not math.isinf(x) else 0.0


def close(a, b, rel=1e-9, abs_=0.0):
    if a == b:
        return True
    if math.isinf(a) or math.isinf(b):
        return False
    return abs(a - b) <= max(abs_, rel * max(abs(a), abs(b)))


def gd_ref(reference, computed, norm="euclidean"):
    tot = 0.0
    for c in computed:
        best = math.inf
        for r in reference:
            if norm == "euclidean":
                d = math.sqrt(sum((a - b) ** 2 for a, b in zip(c, r)))
            elif norm == "chebyshev":
                d = max(abs(a - b) for a, b in zip(c, r))
            elif norm == "cityblock":
                d = sum(abs(a - b) for a, b in zip(c, r))
            else:
                raise ValueError(norm)
            best = min(best, d)
        tot += best
    return tot / len(computed)


def eps_add_ref(reference, computed):
    """max over reference points of min over computed points of max coordinate
    difference (computed - reference), floored at 0."""
    worst = 0.0
    for r in reference:
        best = math.inf
        for c in computed:
            best = min(best, max(a - b for a, b in zip(c, r)))
        worst = max(worst, best)
    return worst


def product_rows(levels):
    return list(itertools.product(*levels))
