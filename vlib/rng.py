"""Seeded / hostile random sources installed by namespace scan.

HostileRandom subclasses random.Random and overrides only random() and
getrandbits(); uniform/sample/choice/shuffle stay the stdlib algorithms on top,
so only values the real generator can produce appear (0.0, 2^-53, 0.5-ulp, 0.5,
1-2^-53 are all legitimate outputs of random())."""
import random
import sys
import threading

import numpy as np

_EDGE = [0.0, 2.0 ** -53, 0.5 - 2.0 ** -54, 0.5, 0.5 + 2.0 ** -53, 1.0 - 2.0 ** -53,
         1e-12, 1.0 - 1e-12]
_NAMES = ("random", "uniform", "randint", "choice", "choices", "sample", "shuffle", "gauss",
          "normalvariate", "randrange", "getrandbits", "triangular", "betavariate",
          "expovariate", "seed")


FOREIGN_DRAWS = []      # stack traces of draws made by a thread other than the main thread (diagnostics)


class SeededRandom(random.Random):
    def __init__(self, seed=0):
        super().__init__(seed)
        self.draws = 0
        self.tids = set()

    def random(self):
        self.draws += 1
        self.tids.add(threading.get_ident())
        if threading.current_thread() is not threading.main_thread() and len(FOREIGN_DRAWS) < 5:
            import traceback
            FOREIGN_DRAWS.append("".join(traceback.format_stack(limit=14)))
        return super().random()

    def getrandbits(self, k):
        self.draws += 1
        self.tids.add(threading.get_ident())
        if threading.current_thread() is not threading.main_thread() and len(FOREIGN_DRAWS) < 5:
            import traceback
            FOREIGN_DRAWS.append("getrandbits\n" + "".join(traceback.format_stack(limit=14)))
        return super().getrandbits(k)

    def sample(self, population, k, **kw):
        res = super().sample(population, k, **kw)
        self.last_sample = res
        self.samples_drawn = getattr(self, "samples_drawn", 0) + 1
        return res


class HostileRandom(random.Random):
    """With probability p_edge random() returns an edge value."""

    def __init__(self, seed=0, p_edge=0.05):
        super().__init__(seed)
        self.p_edge = p_edge
        self.draws = 0
        self.edges = 0
        self._side = random.Random(seed ^ 0x5EED)

    def random(self):
        self.draws += 1
        if self._side.random() < self.p_edge:
            self.edges += 1
            return self._side.choice(_EDGE)
        return super().random()

    def sample(self, population, k, **kw):
        res = super().sample(population, k, **kw)
        self.last_sample = res
        self.samples_drawn = getattr(self, "samples_drawn", 0) + 1
        return res

    def getrandbits(self, k):
        if self._side.random() < self.p_edge:
            return self._side.choice([0, (1 << k) - 1]) if k > 0 else 0
        return super().getrandbits(k)


_ORIG = {}


def install(rng):
    """Make `random.<fn>` and every reference to such a bound method inside loaded
    artap.* modules use `rng`."""
    for name in _NAMES:
        if name not in _ORIG:
            _ORIG[name] = getattr(random, name)
        setattr(random, name, getattr(rng, name))
    n = 0
    for mname, mod in list(sys.modules.items()):
        if mod is None or not (mname == "artap" or mname.startswith("artap.")):
            continue
        for k, v in list(vars(mod).items()):
            s = getattr(v, "__self__", None)
            if isinstance(s, random.Random) and s is not rng and getattr(v, "__name__", None) in _NAMES:
                setattr(mod, k, getattr(rng, v.__name__))
                n += 1
    return n


def uninstall():
    inst = random._inst
    for name, f in _ORIG.items():
        setattr(random, name, f)
    for mname, mod in list(sys.modules.items()):
        if mod is None or not (mname == "artap" or mname.startswith("artap.")):
            continue
        for k, v in list(vars(mod).items()):
            s = getattr(v, "__self__", None)
            if isinstance(s, random.Random) and s is not inst and getattr(v, "__name__", None) in _NAMES:
                setattr(mod, k, getattr(inst, v.__name__))


# ---------------------------------------------------------------- numpy
class HostileRandomState(np.random.RandomState):
    """rand() entries are replaced by 0.0 / 1-2^-53 with probability p_edge."""
    p_edge = 0.0
    edges = 0

    def rand(self, *shape):
        u = super().rand(*shape)
        if self.p_edge > 0:
            mask = super().rand(*shape) < self.p_edge
            vals = np.where(super().rand(*shape) < 0.5, 0.0, 1.0 - 2.0 ** -53)
            HostileRandomState.edges += int(np.sum(mask))
            u = np.where(mask, vals, u)
        return u


_NP_ORIG = None


def install_numpy(seed, p_edge=0.0):
    """np.random.RandomState() without arguments (as artap.doe.lhs does) becomes a
    seeded instance; numpy's global functions are seeded too."""
    global _NP_ORIG
    if _NP_ORIG is None:
        _NP_ORIG = np.random.RandomState
    counter = [0]

    class _RS(HostileRandomState):
        def __init__(self, s=None):
            if s is None:
                counter[0] += 1
                s = (seed + 7919 * counter[0]) % (2 ** 32)
            super().__init__(s)

    _RS.p_edge = p_edge
    np.random.RandomState = _RS
    np.random.seed(seed % (2 ** 32))
    return _RS


def uninstall_numpy():
    if _NP_ORIG is not None:
        np.random.RandomState = _NP_ORIG
