"""A portfolio of real algorithm runs on harness-defined problems.  Checks install
their online monitors first and then call run_one()/portfolio(); whatever the
algorithms do is observed by those monitors."""
import math
import traceback

from . import core, gen, hooks, rng as vrng

ALGOS = ["nsga2", "epsmoea", "omopso", "smpso", "psoga"]


def objective(kind, m):
    if kind == "sphere":
        def fn(x):
            return [sum((v - 0.1 * j) ** 2 for v in x) for j in range(m)]
    elif kind == "zdtlike":
        def fn(x):
            g = 1.0 + sum(abs(v) for v in x[1:])
            out = [abs(x[0]), g * (1.0 + 1.0 / (1.0 + abs(x[0])))]
            return (out + [g + j for j in range(m)])[:m]
    elif kind == "linear":
        def fn(x):
            return [sum((j + 1) * v * (1 if (i + j) % 2 else -1) for i, v in enumerate(x)) for j in range(m)]
    elif kind == "plateau":
        def fn(x):
            return [float(math.floor(4 * abs(v))) for v in (x * m)[:m]]
    else:
        raise ValueError(kind)
    return fn


def make(algo, problem, N, G, procs=1, evaluator_type=None, **opts):
    if algo == "nsga2":
        from artap.algorithm_NSGAII import NSGAII
        a = NSGAII(problem, evaluator_type=evaluator_type)
    elif algo == "epsmoea":
        from artap.algorithm_genetic import EpsMOEA
        a = EpsMOEA(problem, evaluator_type=evaluator_type)
    elif algo == "omopso":
        from artap.algorithm_swarm import OMOPSO
        a = OMOPSO(problem)
    elif algo == "smpso":
        from artap.algorithm_swarm import SMPSO
        a = SMPSO(problem)
    elif algo == "psoga":
        from artap.algorithm_swarm import PSOGA
        a = PSOGA(problem)
    else:
        raise ValueError(algo)
    a.options["max_population_size"] = N
    a.options["max_population_number"] = G
    a.options["max_processes"] = procs
    a.options["verbose_level"] = 0
    for k, v in opts.items():
        a.options[k] = v
    return a


def random_setup(r, algo=None, max_n=5, max_m=3, max_N=16, max_G=8, constrained=None, families=None):
    algo = algo or r.choice(ALGOS)
    n = r.randint(1, max_n)
    m = r.randint(1, max_m)
    if algo in ("epsmoea",) and m == 1 and r.random() < 0.5:
        m = 2
    N = r.randint(2, max_N)
    G = r.randint(1, max_G)
    fam = r.choice(families or ["unit", "mixed", "neg", "asym", "tiny", "huge", "offset"])
    bounds = [gen.box(r, fam) for _ in range(n)]
    crit = [r.choice(["minimize", "minimize", "maximize"]) for _ in range(m)]
    kind = r.choice(["sphere", "zdtlike", "linear", "plateau"])
    if constrained is None:
        constrained = r.random() < 0.3
    return dict(algo=algo, n=n, m=m, N=N, G=G, bounds=bounds, criteria=crit, kind=kind,
                constrained=bool(constrained), seed=r.randrange(2 ** 31))


def build_problem(setup, **extra):
    n, m = setup["n"], setup["m"]
    fn = objective(setup["kind"], m)
    cons = None
    if setup.get("constrained"):
        b = setup["bounds"]
        mids = [lb + (ub - lb) * 0.5 for lb, ub in b]

        def cons(x):
            # feasible (g<0) on roughly half of the box along x0
            return [x[0] - mids[0], -1.0]
    return hooks.make_problem(n=n, m=m, bounds=setup["bounds"], criteria=setup["criteria"],
                              fn=fn, cons=cons, **extra)


class RunTimeout(Exception):
    """raised by the wall-clock guard inside a run (e.g. duplicate rejection that can never fill the population in a box
    narrower than the 1e-10 equality tolerance allows); the run counts as aborted, never as a verdict"""


def _alarm(signum, frame):
    raise RunTimeout("run exceeded its wall-clock guard")


def run_one(setup, hostile=0.0, procs=1, problem=None, evaluator_type=None, timeout=30, algorithm=None, **extra):
    """returns (problem, algorithm, exception or None); algorithm given: that object's run() is called again"""
    r = (vrng.HostileRandom(setup["seed"], hostile) if hostile > 0 else vrng.SeededRandom(setup["seed"]))
    vrng.install(r)
    vrng.install_numpy(setup["seed"])
    prepare = extra.pop("prepare", None)
    p = problem or build_problem(setup, **extra)
    a = algorithm or make(setup["algo"], p, setup["N"], setup["G"], procs=procs, evaluator_type=evaluator_type)
    if prepare is not None:
        prepare(a, p)          # between construction and run(): set a generator, re-declare parameters, change options...
    err = None
    import signal
    import threading
    guard = timeout and threading.current_thread() is threading.main_thread()
    if guard:
        old = signal.signal(signal.SIGALRM, _alarm)
        signal.setitimer(signal.ITIMER_REAL, timeout)
    try:
        a.run()
    except Exception as e:  # the caller decides what an aborted run means
        err = e
        err._tb = traceback.format_exc()
    finally:
        if guard:
            signal.setitimer(signal.ITIMER_REAL, 0)
            signal.signal(signal.SIGALRM, old)
    return p, a, err
